package main

// Calls: builtins, modular use of contracts, inlining of contract-less gostatsd functions,
// assumed models of dependency functions, and the (sequential) treatment of go/defer/channels.

import (
	"sync"
	"fmt"
	"go/token"
	"go/types"
	"path/filepath"
	"strings"

	"golang.org/x/tools/go/ssa"
)

const maxInlineDepth = 6

// call executes one call instruction and remembers its results for lastresult(Name, k).
func (fr *Frame) call(instr ssa.Instruction, cc *ssa.CallCommon, st *State, reach string) Val {
	r := fr.call0(instr, cc, st, reach)
	if _, isBuiltin := cc.Value.(*ssa.Builtin); !isBuiltin {
		pos := instr.Pos()
		fr.noteResult(fr.callName(cc, pos), r, st)
		fr.noteResult(fr.callQualName(pos), r, st)
	}
	return r
}

// noteResult: ghost lastres.<name>.<k> holds result k of the most recent call named name.
func (fr *Frame) noteResult(name string, r Val, st *State) {
	c := fr.c
	if name == "" || name == "?" {
		return
	}
	comps := []Val{r}
	if r.Tuple != nil {
		comps = r.Tuple
	}
	for k, v := range comps {
		g := fmt.Sprintf("lastres.%d.%d", callNameID(name), k)
		if v.Term == "" || v.T == nil {
			delete(st.ghost, g)
			continue
		}
		if _, isTuple := v.T.(*types.Tuple); isTuple {
			continue
		}
		srt := c.sortOf(v.T)
		if old, ok := c.ghostSorts[g]; ok && old != srt {
			delete(st.ghost, g)
			continue
		}
		c.ghostSorts[g] = srt
		c.ghostTypes[g] = v.T
		st.ghost[g] = v.Term
	}
}

func (fr *Frame) call0(instr ssa.Instruction, cc *ssa.CallCommon, st *State, reach string) Val {
	r := fr.call0inner(instr, cc, st, reach)
	fr.callYields(cc, r, st, reach, instr.Pos())
	return r
}

// callYields: `callsite <name> yields e` clauses of the enclosing function's contract are assumed for the result of
// the named call (a call into a dependency whose behaviour this package relies on).
func (fr *Frame) callYields(cc *ssa.CallCommon, r Val, st *State, reach string, pos token.Pos) {
	ct := fr.contract
	if ct == nil && fr.c.contract != nil {
		// a helper without a contract of its own, executed inline on behalf of the function under verification: the
		// function's `callsite ... yields` clauses cover the dependency calls made for it
		ct = fr.c.contract
	}
	if ct == nil || len(ct.clauses("callyields")) == 0 {
		return
	}
	var name string
	if cc.IsInvoke() {
		name = cc.Method.Name()
	} else if f := cc.StaticCallee(); f != nil {
		name = f.Name()
	} else {
		return
	}
	for _, cl := range ct.clauses("callyields") {
		if cl.Label != name {
			continue
		}
		env := fr.env(st)
		if r.Tuple != nil {
			env.results = r.Tuple
		} else {
			env.results = []Val{r}
		}
		t, err := env.evalBool(cl.Expr)
		if err != nil {
			fr.bindFailure(cl, err)
			continue
		}
		fr.c.smt.assume(implies(reach, t), "callsite yields (dependency behaviour): "+cl.Text)
	}
}

func (fr *Frame) call0inner(instr ssa.Instruction, cc *ssa.CallCommon, st *State, reach string) Val {
	c := fr.c
	_ = c
	var resT types.Type
	if v, ok := instr.(ssa.Value); ok {
		resT = v.Type()
	} else {
		resT = cc.Signature().Results()
	}
	pos := instr.Pos()
	var args []Val
	for _, a := range cc.Args {
		args = append(args, fr.val(a, st))
	}
	fr.curCallBlock = instr.Block()
	fr.callsiteChecks(cc, args, st, reach, pos)
	if _, isBuiltin := cc.Value.(*ssa.Builtin); !isBuiltin {
		fr.countCall(fr.callName(cc, pos), st)
		fr.countCall(fr.callQualName(pos), st)
	}
	if cc.IsInvoke() {
		recv := fr.val(cc.Value, st)
		return fr.invoke(cc, recv, args, resT, st, reach, pos)
	}
	switch callee := cc.Value.(type) {
	case *ssa.Builtin:
		return fr.builtin(callee, cc, args, resT, st, reach, pos)
	case *ssa.Function:
		return fr.callFunction(&FnVal{Fn: callee}, args, resT, st, reach, pos)
	case *ssa.MakeClosure:
		v := fr.val(callee, st)
		return fr.callFunction(v.Fn, args, resT, st, reach, pos)
	}
	fv := fr.val(cc.Value, st)
	if fv.Fn != nil {
		return fr.callFunction(fv.Fn, args, resT, st, reach, pos)
	}
	if fnv := fr.writeOnceClosure(cc.Value); fnv != nil {
		return fr.callFunction(fnv, args, resT, st, reach, pos)
	}
	return fr.callDynamic(cc, fv, args, resT, st, reach, pos)
}

// writeOnceClosure resolves a call through a captured variable (`writeLine(...)` inside a closure) when the variable
// is a local of the enclosing function that is assigned exactly once in that function and in all its closures, with a
// function literal: the callee is then that literal, whatever happened to the heap since. The closure value is taken
// from the enclosing function's frame (the call is executed inline under it).
func (fr *Frame) writeOnceClosure(v ssa.Value) *FnVal {
	ld, ok := v.(*ssa.UnOp)
	if !ok || ld.Op != token.MUL {
		return nil
	}
	fvar, ok := ld.X.(*ssa.FreeVar)
	if !ok || fr.fn.Parent() == nil {
		return nil
	}
	parent := fr.fn.Parent()
	idx := -1
	for i, f := range fr.fn.FreeVars {
		if f == fvar {
			idx = i
		}
	}
	if idx < 0 {
		return nil
	}
	// the variable's cell in the enclosing function
	var cell *ssa.Alloc
	for _, b := range parent.Blocks {
		for _, in := range b.Instrs {
			if mc, ok := in.(*ssa.MakeClosure); ok && mc.Fn == fr.fn && idx < len(mc.Bindings) {
				if a, ok := mc.Bindings[idx].(*ssa.Alloc); ok {
					cell = a
				}
			}
		}
	}
	if cell == nil {
		return nil
	}
	// exactly one store to the cell in the enclosing function, of a function literal; none in its closures
	var lit *ssa.MakeClosure
	stores := 0
	for _, b := range parent.Blocks {
		for _, in := range b.Instrs {
			if st, ok := in.(*ssa.Store); ok && st.Addr == cell {
				stores++
				lit, _ = st.Val.(*ssa.MakeClosure)
			}
		}
	}
	if stores != 1 || lit == nil {
		return nil
	}
	for _, af := range parent.AnonFuncs {
		// which free variable of af is the cell?
		for _, b := range parent.Blocks {
			for _, in := range b.Instrs {
				mc, ok := in.(*ssa.MakeClosure)
				if !ok || mc.Fn != af {
					continue
				}
				for i, bv := range mc.Bindings {
					if bv != cell || i >= len(af.FreeVars) {
						continue
					}
					for _, ab := range af.Blocks {
						for _, ain := range ab.Instrs {
							if st, ok := ain.(*ssa.Store); ok && st.Addr == af.FreeVars[i] {
								return nil
							}
						}
					}
				}
			}
		}
	}
	// the literal's value in the enclosing function's frame
	for pf := fr.parent; pf != nil; pf = pf.parent {
		if pf.fn == parent {
			if lv, ok := pf.vals[lit]; ok && lv.Fn != nil {
				return lv.Fn
			}
		}
	}
	return nil
}

func packResults(resT types.Type, rs []Val) Val {
	if tup, ok := resT.(*types.Tuple); ok {
		if tup.Len() == 0 {
			return Val{T: resT}
		}
		if tup.Len() == 1 && len(rs) == 1 {
			v := rs[0]
			return v
		}
		return Val{T: resT, Tuple: rs}
	}
	if len(rs) == 1 {
		v := rs[0]
		v.T = resT
		return v
	}
	return Val{T: resT}
}

func (fr *Frame) callFunction(fv *FnVal, args []Val, resT types.Type, st *State, reach string, pos token.Pos) Val {
	c := fr.c
	callee := fv.Fn
	ct := c.eng.contractOf(callee)
	if ct != nil && !ct.Inline && ct.hasCallSpec() {
		rs := fr.callWithContract(callee, ct, fv, args, st, reach, pos)
		return packResults(resT, rs)
	}
	if callee.Blocks != nil && c.eng.inScope(callee) {
		// inline
		rec := false
		for _, f := range c.inlineStack {
			if f == callee {
				rec = true
			}
		}
		if !rec && fr.depth < maxInlineDepth {
			c.inlineStack = append(c.inlineStack, callee)
			sub := c.newFrame(callee, fr, fv)
			if ct != nil && ct.Iterator {
				for _, a := range args {
					if a.Fn != nil {
						if act := c.eng.contractOf(a.Fn.Fn); act != nil && len(act.clauses("iterinv"))+len(act.clauses("iterinner")) > 0 {
							sub.iterFv = a.Fn
						}
					}
				}
			}
			out, rs, rr := sub.execBody(st, reach, args)
			c.inlineStack = c.inlineStack[:len(c.inlineStack)-1]
			// continue in the caller with the callee's exit state
			*st = *out
			if rr != reach {
				// paths on which the callee does not return (panic / infinite loop) are cut:
				// the caller continues only where the callee returned
				c.smt.assume(implies(reach, rr), "inlined callee returned (non-returning paths carry their own obligations)")
			}
			return packResults(resT, rs)
		}
		c.unsupported("recursive or too deep inlining of " + shortFn(callee) + " (effects havoc'd)")
		c.havocAll(st)
		return fr.havocVal(resT, "rec")
	}
	return fr.external(callee, args, resT, st, reach, pos)
}

// callWithContract: assert requires, havoc modifies, assume ensures.
func (fr *Frame) callWithContract(callee *ssa.Function, ct *Contract, fv *FnVal, args []Val, st *State, reach string, pos token.Pos) []Val {
	c := fr.c
	c.contractsUsed[shortFn(callee)] = true
	env := c.calleeEnv(callee, fv, args, st)
	env.parentEntry = fr.parentEntryOf(callee)
	for _, cl := range ct.clauses("requires") {
		for _, cj := range conjuncts(cl.Expr) {
			t, err := env.evalBool(cj)
			if err != nil {
				fr.bindFailure(cl, err)
				continue
			}
			fr.oblige("pre", shortFn(callee)+" requires "+cj.String(), reach, t, pos)
		}
	}
	old := st.clone()
	// havoc what the callee may modify
	ms, err := env.modSet(ct)
	if err != nil {
		fr.bindFailure(&Clause{Kind: "modifies", Text: shortFn(callee)}, err)
		c.havocAll(st)
	} else {
		ms.preserve = append(ms.preserve, ct.Preserves...)
		c.applyHavoc(st, old, ms, !ct.Pure)
	}
	sig := callee.Signature
	var results []Val
	for i := 0; i < sig.Results().Len(); i++ {
		results = append(results, fr.havocVal(sig.Results().At(i).Type(), "res."+callee.Name()))
	}
	env2 := c.calleeEnv(callee, fv, args, st)
	env2.old = old
	env2.results = results
	env2.parentEntry = env.parentEntry
	for _, cl := range ct.clauses("ensures") {
		for _, cj := range conjuncts(cl.Expr) {
			if mentionsInternals(cj) {
				continue // about the callee's own locals / call results: proved there, of no use to a caller
			}
			t, err := env2.evalBool(cj)
			if err != nil {
				if !mentionsCall(cj, "final") { // final(x) of a callee local means nothing here
					fr.bindFailure(cl, err)
				}
				continue
			}
			c.smt.assume(implies(reach, t), "ensures of "+shortFn(callee)+": "+cl.Text)
		}
	}
	return results
}

// ModSet: which locations may change, per heap component.
type ModSet struct {
	preserve []string // with all: struct types (pkgname.Type) whose field heaps keep their values
	heaps map[string][]func(r string) string // predicates "r may be modified"; nil entry = whole heap
	whole map[string]bool
	refs  map[string][]string // single references (cheap store-based havoc)
	ghost map[string]bool
	all   bool
	callNames []int // calls(Name) counters the callee may change
}

func newModSet() *ModSet {
	return &ModSet{heaps: map[string][]func(string) string{}, whole: map[string]bool{}, refs: map[string][]string{}, ghost: map[string]bool{}}
}

func (m *ModSet) addRef(heap, ref string) { m.refs[heap] = append(m.refs[heap], ref) }
func (m *ModSet) addPred(heap string, p func(string) string) {
	m.heaps[heap] = append(m.heaps[heap], p)
}
func (m *ModSet) names() []string {
	set := map[string]bool{}
	for k := range m.heaps {
		set[k] = true
	}
	for k := range m.whole {
		set[k] = true
	}
	for k := range m.refs {
		set[k] = true
	}
	return sortedKeys(set)
}

// applyHavoc replaces the modifiable locations by unknown values.
func (c *FnCtx) applyHavoc(st, old *State, ms *ModSet, mayAlloc bool) {
	if len(ms.callNames) > 0 {
		c.ghostSorts["calls"] = "(Array Int Int)"
		cur, ok := st.ghost["calls"]
		if !ok {
			cur = c.ghostInit("calls")
		}
		ng := c.smt.declareFresh("ghost.calls", "(Array Int Int)")
		var keep []string
		for _, id := range ms.callNames {
			keep = append(keep, not(eq("i", fmt.Sprint(id))))
		}
		c.smt.assume(fmt.Sprintf("(forall ((i Int)) (! (=> %s (= (select %s i) (select %s i))) :pattern ((select %s i))))", and(keep...), ng, cur, ng), "callee frame: call counters")
		st.ghost["calls"] = ng
	}
	for g := range ms.ghost {
		if g == "lastsent.*" {
			for k, srt := range c.ghostSorts {
				if strings.HasPrefix(k, "lastsent.") {
					st.ghost[k] = c.smt.declareFresh("ghost."+k, srt)
				}
			}
			continue
		}
		if srt, ok := c.ghostSorts[g]; ok {
			st.ghost[g] = c.smt.declareFresh("ghost."+g, srt)
		}
	}
	if ms.all {
		c.havocAllBut(st, ms.preserve, nil)
		return
	}
	oldAlloc := c.heapGet(old, "alloc", allocSort)
	for _, h := range ms.names() {
		srt := c.heapSorts[h]
		if srt == "" {
			continue
		}
		cur := c.heapGet(st, h, srt)
		if ms.whole[h] {
			c.havocHeap(st, h)
			continue
		}
		if len(ms.heaps[h]) == 0 {
			// only single references: nested stores of fresh values
			elemSort := arrayElemSort(srt)
			t := cur
			for _, r := range ms.refs[h] {
				t = sto(t, r, c.smt.declareFresh("hv."+h, elemSort))
			}
			// Objects the callee allocates lie at references that were unallocated before the
			// call; the caller knows nothing about the heap there (the heap at unallocated
			// references is unconstrained), so their initialisation needs no separate havoc.
			c.heapSet(st, h, srt, t)
			continue
		}
		nh := c.smt.declareFresh(h, srt)
		var may []string
		for _, p := range ms.heaps[h] {
			may = append(may, p("r"))
		}
		for _, r := range ms.refs[h] {
			may = append(may, eq("r", r))
		}
		if mayAlloc {
			may = append(may, not(sel(oldAlloc, "r")))
		}
		c.smt.assume(fmt.Sprintf("(forall ((r Int)) (! (=> (not %s) (= (select %s r) (select %s r))) :pattern ((select %s r))))", or(may...), nh, cur, nh), "callee frame: "+h)
		st.heaps[h] = nh
	}
	if mayAlloc {
		na := c.smt.declareFresh("alloc", allocSort)
		c.smt.assume(fmt.Sprintf("(forall ((r Int)) (! (=> (select %s r) (select %s r)) :pattern ((select %s r)) :pattern ((select %s r))))", oldAlloc, na, na, oldAlloc), "allocation only grows")
		st.heaps["alloc"] = na
		// typed heaps not mentioned keep their values on allocated objects only; heaps that the
		// callee does not mention at all are left untouched (fresh objects of those types
		// cannot be reached by the caller except through results, whose fields are unknown
		// unless the contract says so).
	}
	st.nonNil = map[string]bool{}
}

func arrayElemSort(s string) string {
	// "(Array Int X)" -> X
	s = strings.TrimSpace(s)
	if strings.HasPrefix(s, "(Array Int ") {
		return strings.TrimSuffix(strings.TrimPrefix(s, "(Array Int "), ")")
	}
	return s
}

// dynamic calls ---------------------------------------------------------------------------------

func (fr *Frame) callDynamic(cc *ssa.CallCommon, fv Val, args []Val, resT types.Type, st *State, reach string, pos token.Pos) Val {
	c := fr.c
	ft := c.termOf(fv)
	fr.oblige("safety", "call of nil function "+c.eng.srcText(pos, "call"), reach, not(eq(ft, "0")), pos)
	// a function type with a type contract?
	if tc := c.eng.typeContract(cc.Value.Type(), fr.pkg()); tc != nil {
		rs := fr.callTypeContract(tc, fv, args, st, reach, pos)
		return packResults(resT, rs)
	}
	c.unsupported("call through an unknown function value (" + c.eng.srcText(pos, "call") + "): heap havoc'd")
	c.havocAll(st)
	return fr.havocVal(resT, "dyn")
}

func (fr *Frame) invoke(cc *ssa.CallCommon, recv Val, args []Val, resT types.Type, st *State, reach string, pos token.Pos) Val {
	c := fr.c
	name := cc.Method.FullName()
	if recv.Dyn != nil {
		// devirtualise: the dynamic type of the receiver is known
		if m := c.eng.prog.LookupMethod(recv.Dyn.T, cc.Method.Pkg(), cc.Method.Name()); m != nil && m.Blocks != nil {
			return fr.callFunction(&FnVal{Fn: m}, append([]Val{recv.Dyn.V}, args...), resT, st, reach, pos)
		}
	}
	if m := c.eng.invokeModel(name); m != nil {
		return m(fr, recv, args, resT, st, reach, pos)
	}
	if ct := c.eng.ifaceContract(cc); ct != nil {
		return fr.invokeWithContract(cc, ct, recv, args, resT, st, reach, pos)
	}
	pk := ""
	if cc.Method.Pkg() != nil {
		pk = cc.Method.Pkg().Path()
	}
	if isPureLibPkg(pk) || name == "(error).Error" {
		c.assumedExternal[name+" (interface method, assumed not to touch gostatsd's heap)"] = true
		return fr.havocVal(resT, "inv")
	}
	c.assumedExternal[name+" (interface method: all heaps havoc'd)"] = true
	c.havocAll(st)
	return fr.havocVal(resT, "inv")
}

// builtins --------------------------------------------------------------------------------------------

func (fr *Frame) builtin(b *ssa.Builtin, cc *ssa.CallCommon, args []Val, resT types.Type, st *State, reach string, pos token.Pos) Val {
	c := fr.c
	switch b.Name() {
	case "len":
		a := args[0]
		switch u := a.T.Underlying().(type) {
		case *types.Slice:
			return Val{T: resT, Term: app("sl_len", c.termOf(a))}
		case *types.Basic:
			return Val{T: resT, Term: app("slen", c.termOf(a))}
		case *types.Map:
			return Val{T: resT, Term: c.mapLen(st, a.T, c.termOf(a))}
		case *types.Array:
			return Val{T: resT, Term: fmt.Sprint(u.Len())}
		case *types.Pointer:
			if arr, ok := u.Elem().Underlying().(*types.Array); ok {
				return Val{T: resT, Term: fmt.Sprint(arr.Len())}
			}
		case *types.Chan:
			r := fr.havocVal(resT, "chanlen")
			c.smt.assume(app(">=", r.Term, "0"), "")
			return r
		}
	case "cap":
		a := args[0]
		switch u := a.T.Underlying().(type) {
		case *types.Slice:
			return Val{T: resT, Term: app("sl_cap", c.termOf(a))}
		case *types.Array:
			return Val{T: resT, Term: fmt.Sprint(u.Len())}
		case *types.Chan:
			// the capacity of a channel never changes: an uninterpreted function of the channel
			c.smt.declareFun("chan_cap", []string{"Int"}, "Int")
			t := c.smt.define("chancap", "Int", app("chan_cap", c.termOf(a)))
			c.smt.assume(and(app(">=", t, "0"), app("<=", t, "72057594037927936")), "capacity of a channel")
			return Val{T: resT, Term: t}
		}
	case "append":
		if one, ok := singleVarArg(cc); ok {
			return fr.appendOne(args, fr.val(one, st), resT, st)
		}
		return fr.appendBuiltin(args, resT, st, reach)
	case "copy":
		return fr.copyBuiltin(args, resT, st)
	case "delete":
		c.mapDelete(st, args[0].T, c.termOf(args[0]), c.termOf(args[1]))
		return Val{T: resT}
	case "print", "println":
		return Val{T: resT}
	case "close":
		return Val{T: resT}
	case "min", "max":
		if isInteger(resT) {
			f := "imin"
			if b.Name() == "max" {
				f = "imax"
			}
			t := c.termOf(args[0])
			for _, a := range args[1:] {
				t = app(f, t, c.termOf(a))
			}
			return Val{T: resT, Term: t}
		}
	case "recover":
		if c.inReturnDefers > 0 {
			// deferred functions run here because the function returns normally: no panic is in flight (executions in
			// which a callee marked may_panic panics are not followed; listed as an assumption)
			c.assumedExternal["recover() in a deferred function returns nil on normal return; executions in which a may_panic callee panics are not followed through the deferred functions"] = true
			return Val{T: resT, Term: "0"}
		}
		return fr.havocVal(resT, "recover")
	case "ssa:wrapnilchk":
		return args[0]
	case "ssa:deferstack":
		return Val{T: resT, Term: "0"}
	case "clear":
		c.unsupported("clear")
	case "String", "StringData", "Slice", "SliceData", "Add":
		// package unsafe: outside the verified subset, and the way parsed data could alias a buffer
		fr.oblige("subset", "use of unsafe."+b.Name()+" "+c.eng.srcText(pos, "call"), reach, "false", pos)
		return fr.havocVal(resT, "unsafe")
	}
	c.unsupported("builtin " + b.Name())
	return fr.havocVal(resT, "builtin")
}

func (c *FnCtx) mapLen(st *State, mt types.Type, m string) string {
	dn, _, ln, ks, _ := c.mapHeaps(mt)
	t := c.smt.define("maplen", "Int", ite(eq(m, "0"), "0", sel(c.heapGet(st, ln, c.heapSorts[ln]), m)))
	c.smt.assume(and(app(">=", t, "0"), app("<=", t, "72057594037927936")), "len of a map is a non-negative int")
	if !strings.Contains(m, "q.") {
		// len(m) == 0 exactly when m has no keys
		dom := sel(c.heapGet(st, dn, c.heapSorts[dn]), m)
		w := c.smt.declareFresh("mapwitness", ks)
		c.smt.assume(implies(eq(t, "0"), fmt.Sprintf("(forall ((k %s)) (! (not (select %s k)) :pattern ((select %s k))))", ks, dom, dom)), "len(m) == 0 means no keys")
		c.smt.assume(implies(not(eq(t, "0")), sel(dom, w)), "len(m) != 0 means some key")
	}
	return t
}

func (fr *Frame) appendBuiltin(args []Val, resT types.Type, st *State, reach string) Val {
	c := fr.c
	s := c.termOf(args[0])
	et := resT.Underlying().(*types.Slice).Elem()
	es := c.sortOf(et)
	name, sort := c.elemHeap(et)
	h := c.heapGet(st, name, sort)
	var n2 string   // number of appended elements
	var src func(i string) string
	if isString(args[1].T) { // append([]byte, string...)
		t := c.termOf(args[1])
		n2 = app("slen", t)
		src = func(i string) string { return app("sbyte", t, i) }
	} else {
		t := c.termOf(args[1])
		n2 = app("sl_len", t)
		src = func(i string) string { return sel(sel(h, app("sl_base", t)), app("+", app("sl_off", t), i)) }
	}
	n2 = c.smt.define("apn", "Int", n2)
	newLen := c.smt.define("aplen", "Int", app("+", app("sl_len", s), n2))
	inPlace := c.smt.define("apinplace", "Bool", and(app("<=", newLen, app("sl_cap", s)), not(eq(app("sl_base", s), "0"))))
	// nothing appended to a nil slice stays nil; otherwise a new array when capacity is exceeded
	nb := c.smt.declareFresh("new.append", "Int")
	al := c.heapGet(st, "alloc", allocSort)
	c.smt.assume(and(app(">", nb, "0"), not(sel(al, nb))), "fresh backing array")
	ncap := c.smt.declareFresh("apcap", "Int")
	c.smt.assume(and(app(">=", ncap, newLen), app("<=", ncap, "72057594037927936")), "")
	noop := c.smt.define("apnoop", "Bool", eq(n2, "0"))
	r := c.smt.define("ap", "Slice", ite(noop, s, ite(inPlace,
		fmt.Sprintf("(mk_slice (sl_base %s) (sl_off %s) %s (sl_cap %s))", s, s, newLen, s),
		fmt.Sprintf("(mk_slice %s (sl_off %s) %s %s)", nb, s, newLen, ncap))))
	// contents of the result's backing array. A grown slice is modelled at the same offset inside its fresh
	// array as the old slice had in the old one (offsets are not observable in Go), so that the copied prefix
	// sits at the same positions: arr[i] == old[i], no index arithmetic for the solvers to match through.
	arr := c.smt.declareFresh("aparr", "(Array Int "+es+")")
	oldArr := sel(h, app("sl_base", s))
	ro := app("sl_off", r)
	c.smt.assume(fmt.Sprintf("(forall ((i Int)) (! (and (=> (and (<= %[1]s i) (< i (+ %[1]s (sl_len %[2]s)))) (= (select %[3]s i) (select %[4]s i))) (=> (and (<= (+ %[1]s (sl_len %[2]s)) i) (< i (+ %[1]s %[5]s))) (= (select %[3]s i) %[6]s)) (=> (and %[7]s (or (< i (sl_off %[2]s)) (>= i (+ (sl_off %[2]s) %[5]s)))) (= (select %[3]s i) (select %[4]s i)))) :pattern ((select %[3]s i))))",
		ro, s, arr, oldArr, newLen, src(fmt.Sprintf("(- i (+ %s (sl_len %s)))", ro, s)), inPlace), "append: contents")
	c.heapSet(st, name, sort, ite(noop, h, sto(h, app("sl_base", r), arr)))
	c.heapSet(st, "alloc", allocSort, ite(or(noop, inPlace), al, sto(al, nb, "true")))
	return Val{T: resT, Term: r}
}

func (fr *Frame) copyBuiltin(args []Val, resT types.Type, st *State) Val {
	c := fr.c
	d := c.termOf(args[0])
	et := args[0].T.Underlying().(*types.Slice).Elem()
	es := c.sortOf(et)
	name, sort := c.elemHeap(et)
	h := c.heapGet(st, name, sort)
	var n2 string
	var src func(i string) string
	if isString(args[1].T) {
		t := c.termOf(args[1])
		n2 = app("slen", t)
		src = func(i string) string { return app("sbyte", t, i) }
	} else {
		t := c.termOf(args[1])
		n2 = app("sl_len", t)
		src = func(i string) string { return sel(sel(h, app("sl_base", t)), app("+", app("sl_off", t), i)) }
	}
	n := c.smt.define("cpn", "Int", app("imin", app("sl_len", d), n2))
	arr := c.smt.declareFresh("cparr", "(Array Int "+es+")")
	oldArr := sel(h, app("sl_base", d))
	c.smt.assume(fmt.Sprintf("(forall ((i Int)) (! (ite (and (<= (sl_off %[1]s) i) (< i (+ (sl_off %[1]s) %[2]s))) (= (select %[3]s i) %[4]s) (= (select %[3]s i) (select %[5]s i))) :pattern ((select %[3]s i))))",
		d, n, arr, src(fmt.Sprintf("(- i (sl_off %s))", d)), oldArr), "copy: contents")
	c.heapSet(st, name, sort, ite(eq(n, "0"), h, sto(h, app("sl_base", d), arr)))
	return Val{T: resT, Term: n}
}

// goroutines, defer, channels ------------------------------------------------------------------------

type deferred struct {
	cc    *ssa.CallCommon
	instr *ssa.Defer
	cond  string
	fn    Val
	args  []Val
}

func (fr *Frame) goStmt(x *ssa.Go, st *State, reach string) {
	c := fr.c
	// the spawned call runs concurrently: its precondition is checked here, its effects on
	// the spawner's view are not modelled (ownership / channel assumptions, DESIGN §5.3).
	cc := x.Common()
	// calls(goK): how often the K-th go statement (in source order) of this function has been executed
	fr.countCall(fmt.Sprintf("go%d", fr.goOrdinal(x)), st)
	{
		// `callsite <closure or function name> requires ...` clauses also apply to go statements
		var gargs []Val
		for _, a := range cc.Args {
			gargs = append(gargs, fr.val(a, st))
		}
		fr.callsiteChecks(cc, gargs, st, reach, x.Pos())
	}
	if callee, ok := cc.Value.(*ssa.Function); ok {
		if ct := c.eng.contractOf(callee); ct != nil {
			var args []Val
			for _, a := range cc.Args {
				args = append(args, fr.val(a, st))
			}
			env := c.calleeEnv(callee, &FnVal{Fn: callee}, args, st)
			for _, cl := range ct.clauses("requires") {
				for _, cj := range conjuncts(cl.Expr) {
					t, err := env.evalBool(cj)
					if err != nil {
						fr.bindFailure(cl, err)
						continue
					}
					fr.oblige("pre", "go "+shortFn(callee)+" requires "+cj.String(), reach, t, x.Pos())
				}
			}
		}
	}
	c.assumedExternal["go statement: effects of the spawned goroutine on shared state not modelled (ownership assumption)"] = true
}

func (fr *Frame) deferStmt(x *ssa.Defer, st *State, reach string) {
	cc := x.Common()
	d := &deferred{cc: cc, instr: x, cond: reach}
	if !cc.IsInvoke() {
		d.fn = fr.val(cc.Value, st)
	} else {
		d.fn = fr.val(cc.Value, st)
	}
	for _, a := range cc.Args {
		d.args = append(d.args, fr.val(a, st))
	}
	fr.defers = append(fr.defers, d)
	if fr.loops != nil {
		for _, lp := range fr.loops.loops {
			if lp.body[x.Block()] {
				fr.c.unsupported("defer inside a loop")
			}
		}
	}
}

func (fr *Frame) runDefers(st *State, reach string) {
	c := fr.c
	c.inReturnDefers++
	defer func() { c.inReturnDefers-- }()
	for i := len(fr.defers) - 1; i >= 0; i-- {
		d := fr.defers[i]
		// the deferred call runs iff its defer statement was executed on this path: cond is the
		// reach condition of the defer site; under merged states we run it under (reach ∧ cond)
		r := c.smt.define("Rdefer", "Bool", and(reach, d.cond))
		if r == "false" {
			continue
		}
		before := st.clone()
		resT := d.cc.Signature().Results()
		// call-site clauses apply to a deferred call at the moment it runs (with the arguments bound at the defer)
		fr.curCallBlock = nil
		fr.callsiteChecks(d.cc, d.args, st, r, d.cc.Pos())
		if _, isBuiltin := d.cc.Value.(*ssa.Builtin); !isBuiltin {
			fr.countCall(fr.callName(d.cc, d.cc.Pos()), st) // a deferred call counts when it runs
			fr.countCall(fr.callQualName(d.cc.Pos()), st)
		}
		if d.cc.IsInvoke() {
			fr.invoke(d.cc, d.fn, d.args, resT, st, r, d.instr.Pos())
		} else if b, ok := d.cc.Value.(*ssa.Builtin); ok {
			fr.builtin(b, d.cc, d.args, resT, st, r, d.instr.Pos())
		} else if d.fn.Fn != nil {
			fr.callFunction(d.fn.Fn, d.args, resT, st, r, d.instr.Pos())
		} else {
			fr.callDynamic(d.cc, d.fn, d.args, resT, st, r, d.instr.Pos())
		}
		if d.cond != reach && d.cond != "true" {
			// merge: effects only where the defer was registered
			m := c.mergeStates([]incoming{{d.cond, st}, {not(d.cond), before}})
			*st = *m
		}
	}
}

func (fr *Frame) send(x *ssa.Send, st *State, reach string) {
	c := fr.c
	ch := c.termOf(fr.val(x.Chan, st))
	v := fr.val(x.X, st)
	c.chanSend(fr, st, reach, x.Chan.Type(), ch, v, x.Pos())
}

func (fr *Frame) recv(x *ssa.UnOp, ch Val, st *State, reach string) Val {
	c := fr.c
	et := ch.T.Underlying().(*types.Chan).Elem()
	// a receive from a nil channel never completes: past this point the channel is not nil
	c.smt.assume(implies(reach, not(eq(c.termOf(ch), "0"))), "a completed receive: the channel is not nil")
	before := st.clone()
	v := c.chanRecv(fr, st, reach, ch.T, c.termOf(ch), et)
	if x.CommaOk {
		// v, ok := <-ch (also `for v := range ch`): a value was received iff ok; on a closed channel nothing is counted
		ok := c.smt.declareFresh("recvok", "Bool")
		fr.recvAssume(st, reach, ch.T, c.termOf(ch), v, ok)
		m := c.mergeStates([]incoming{{ok, st}, {not(ok), before}})
		*st = *m
		return Val{T: x.Type(), Tuple: []Val{v, {T: types.Typ[types.Bool], Term: ok}}}
	}
	fr.recvAssume(st, reach, ch.T, c.termOf(ch), v, "true")
	return v
}

// chanSend / chanRecv: ghost counters per channel type element (messages sent / received by
// this function) are kept so that contracts can count hand-offs; values received are unknown
// (constrained only by their type).
func (c *FnCtx) chanSend(fr *Frame, st *State, reach string, cht types.Type, ch string, v Val, pos token.Pos) {
	if fr.contract != nil {
		for _, cl := range fr.contract.clauses("sendsite") {
			if cl.Label != "" && !strings.HasSuffix(types.TypeString(cht.Underlying().(*types.Chan).Elem(), nil), cl.Label) {
				continue
			}
			env := fr.env(st)
			if len(fr.params) > 0 {
				env.names["self"] = fr.params[0] // the receiver / first parameter, should it be called ch as well
			}
			env.names["ch"] = Val{T: cht, Term: ch}
			vv := v
			if vv.Term == "" {
				vv.Term = c.termOf(v)
			}
			env.names["val"] = vv
			if env.bound == nil {
				env.bound = map[string]bool{}
			}
			env.bound["ch"], env.bound["val"], env.bound["self"] = true, true, true
			for _, cj := range conjuncts(cl.Expr) {
				t, err := env.evalBool(cj)
				if err != nil {
					fr.bindFailure(cl, err)
					continue
				}
				fr.oblige("sendsite", "send requires "+cj.String(), reach, t, pos)
			}
		}
	}
	g := "sent"
	c.ghostSorts[g] = "(Array Int Int)"
	cur, ok := st.ghost[g]
	if !ok {
		cur = c.ghostInit(g)
	}
	st.ghost[g] = c.smt.define("sent", "(Array Int Int)", sto(cur, ch, app("+", sel(cur, ch), "1")))
	// remember the last value sent per channel (for contracts about what is handed over)
	et := cht.Underlying().(*types.Chan).Elem()
	lg := "lastsent." + sortTag(c.sortOf(et))
	c.ghostSorts[lg] = "(Array Int " + c.sortOf(et) + ")"
	lcur, ok := st.ghost[lg]
	if !ok {
		lcur = c.ghostInit(lg)
	}
	st.ghost[lg] = c.smt.define("lastsent", c.ghostSorts[lg], sto(lcur, ch, c.termOf(v)))
}

func (c *FnCtx) ghostInit(g string) string {
	name := "ghost0." + sanitize(g)
	c.smt.declare(name, c.ghostSorts[g])
	if g == "sent" || g == "received" || g == "calls" {
		c.smt.assume(fmt.Sprintf("(forall ((c Int)) (! (= (select %s c) 0) :pattern ((select %s c))))", name, name), "ghost counter starts at 0")
	}
	return name
}

func (c *FnCtx) chanRecv(fr *Frame, st *State, reach string, cht types.Type, ch string, et types.Type) Val {
	g := "received"
	c.ghostSorts[g] = "(Array Int Int)"
	cur, ok := st.ghost[g]
	if !ok {
		cur = c.ghostInit(g)
	}
	st.ghost[g] = c.smt.define("received", "(Array Int Int)", sto(cur, ch, app("+", sel(cur, ch), "1")))
	v := fr.havocVal(et, "recv")
	c.noteLastRecv(st, ch, et, v)
	return v
}

// noteRecv: ghost bookkeeping of a receive (count and last value), used for select cases.
func (c *FnCtx) noteRecv(st *State, ch string, et types.Type, v Val) {
	g := "received"
	c.ghostSorts[g] = "(Array Int Int)"
	cur, ok := st.ghost[g]
	if !ok {
		cur = c.ghostInit(g)
	}
	st.ghost[g] = c.smt.define("received", "(Array Int Int)", sto(cur, ch, app("+", sel(cur, ch), "1")))
	c.noteLastRecv(st, ch, et, v)
}

// recvAssume: channel message invariants (`recvsite assumes`) hold for a received value.
func (fr *Frame) recvAssume(st *State, cond string, cht types.Type, ch string, v Val, delivered string) {
	if fr.contract == nil {
		return
	}
	c := fr.c
	et := cht.Underlying().(*types.Chan).Elem()
	for _, cl := range fr.contract.clauses("recvsite") {
		if cl.Label != "" && !strings.HasSuffix(types.TypeString(et, nil), cl.Label) {
			continue
		}
		env := fr.env(st)
		env.names["ch"] = Val{T: cht, Term: ch}
		vv := v
		if vv.Term == "" {
			vv.Term = c.termOf(v)
		}
		env.names["val"] = vv
		// delivered: a value was actually handed over (false for the zero value read from a closed channel)
		env.names["delivered"] = Val{T: tBool, Term: delivered}
		if env.bound == nil {
			env.bound = map[string]bool{}
		}
		env.bound["ch"], env.bound["val"], env.bound["delivered"] = true, true, true
		t, err := env.evalBool(cl.Expr)
		if err != nil {
			fr.bindFailure(cl, err)
			continue
		}
		c.smt.assume(implies(cond, t), "channel message invariant (recvsite assumes): "+cl.Text)
	}
}

func (c *FnCtx) noteLastRecv(st *State, ch string, et types.Type, v Val) {
	lg := "lastreceived." + sortTag(c.sortOf(et))
	c.ghostSorts[lg] = "(Array Int " + c.sortOf(et) + ")"
	lcur, ok := st.ghost[lg]
	if !ok {
		lcur = c.ghostInit(lg)
	}
	st.ghost[lg] = c.smt.define("lastreceived", c.ghostSorts[lg], sto(lcur, ch, c.termOf(v)))
}

func (fr *Frame) selectStmt(x *ssa.Select, st *State, reach string) Val {
	c := fr.c
	idx := c.smt.declareFresh("sel.idx", "Int")
	n := len(x.States)
	if x.Blocking {
		c.smt.assume(and(app("<=", "0", idx), app("<", idx, fmt.Sprint(n))), "blocking select takes one of its cases")
	} else {
		c.smt.assume(and(app("<=", "-1", idx), app("<", idx, fmt.Sprint(n))), "")
	}
	fr.selectSplits[x.Block()] = selectSplit{idx: idx, n: n, blocking: x.Blocking}
	tup := x.Type().(*types.Tuple)
	vals := []Val{{T: types.Typ[types.Int], Term: idx}, {T: types.Typ[types.Bool], Term: c.smt.declareFresh("sel.ok", "Bool")}}
	// recvOk is looked at only by `case v, ok := <-ch`. A select none of whose cases asks for ok treats whatever it
	// receives as a delivered value: its channels are assumed not to be closed (listed as an assumption).
	okUsed := false
	if refs := x.Referrers(); refs != nil {
		for _, r := range *refs {
			if ex, isEx := r.(*ssa.Extract); isEx && ex.Index == 1 {
				if er := ex.Referrers(); er != nil && len(*er) > 0 {
					okUsed = true
				}
			}
		}
	}
	if !okUsed {
		c.smt.assume(vals[1].Term, "select without comma-ok: received values are delivered values (channels assumed open)")
		c.assumedExternal["select without `, ok`: the channels it receives from are assumed not to be closed"] = true
	}
	k := 2
	for i, s := range x.States {
		ch := c.termOf(fr.val(s.Chan, st))
		// a nil channel never becomes ready
		c.smt.assume(implies(eq(idx, fmt.Sprint(i)), not(eq(ch, "0"))), "select: nil channel case is disabled")
		if s.Dir == types.RecvOnly {
			rv := fr.havocVal(tup.At(k).Type(), "selrecv")
			vals = append(vals, rv)
			k++
			// when this case is taken: one more value received on ch, and it is the last one received there
			// taken and a value was delivered (recvOk is false when the channel was closed: nothing is counted then)
			took := and(eq(idx, fmt.Sprint(i)), vals[1].Term)
			fr.recvAssume(st, and(reach, eq(idx, fmt.Sprint(i))), s.Chan.Type(), ch, rv, vals[1].Term)
			after := st.clone()
			c.noteRecv(after, ch, tup.At(k-1).Type(), rv)
			m := c.mergeStates([]incoming{{took, after}, {not(took), st}})
			*st = *m
		} else {
			// send case: counted when taken
			v := fr.val(s.Send, st)
			after := st.clone()
			c.chanSend(fr, after, and(reach, eq(idx, fmt.Sprint(i))), s.Chan.Type(), ch, v, x.Pos())
			m := c.mergeStates([]incoming{{eq(idx, fmt.Sprint(i)), after}, {not(eq(idx, fmt.Sprint(i))), st}})
			*st = *m
		}
	}
	return Val{T: x.Type(), Tuple: vals}
}

// invokeWithContract: a call through an interface uses the (assumed) contract attached to the
// interface method.
func (fr *Frame) invokeWithContract(cc *ssa.CallCommon, ct *Contract, recv Val, args []Val, resT types.Type, st *State, reach string, pos token.Pos) Val {
	c := fr.c
	name := cc.Method.FullName()
	c.assumedExternal["interface method "+name+": assumed contract ("+filepath.Base(ct.File)+")"] = true
	sig := cc.Method.Type().(*types.Signature)
	env := &CEnv{c: c, names: map[string]Val{}, st: st, old: st, pkg: cc.Method.Pkg()}
	for i := 0; i < sig.Params().Len() && i < len(args); i++ {
		if n := sig.Params().At(i).Name(); n != "" && n != "_" {
			v := args[i]
			v.T = sig.Params().At(i).Type()
			env.names[n] = v
		}
	}
	env.names["recv"] = recv
	fr.oblige("safety", "nil interface in call "+c.eng.srcText(pos, "call"), reach, not(eq(c.termOf(recv), "0")), pos)
	for _, cl := range ct.clauses("requires") {
		for _, cj := range conjuncts(cl.Expr) {
			t, err := env.evalBool(cj)
			if err != nil {
				fr.bindFailure(cl, err)
				continue
			}
			fr.oblige("pre", name+" requires "+cj.String(), reach, t, pos)
		}
	}
	old := st.clone()
	ms, err := env.modSet(ct)
	if err != nil {
		fr.bindFailure(&Clause{Kind: "modifies", Text: name}, err)
		c.havocAll(st)
	} else {
		for _, tn := range ct.Preserves {
			if strings.HasPrefix(tn, "elems(") {
				ms.preserve = append(ms.preserve, tn)
				continue
			}
			if _, err := env.resolveType(&CType{Kind: "name", Name: tn}); err != nil {
				fr.bindFailure(&Clause{Kind: "preserves", Text: tn}, err)
				continue
			}
			ms.preserve = append(ms.preserve, tn)
		}
		c.applyHavoc(st, old, ms, true)
	}
	var results []Val
	for i := 0; i < sig.Results().Len(); i++ {
		results = append(results, fr.havocVal(sig.Results().At(i).Type(), "res."+cc.Method.Name()))
	}
	env2 := *env
	env2.st = st
	env2.old = old
	env2.results = results
	for _, cl := range ct.clauses("ensures") {
		for _, cj := range conjuncts(cl.Expr) {
			if mentionsInternals(cj) {
				continue
			}
			t, err := env2.evalBool(cj)
			if err != nil {
				fr.bindFailure(cl, err)
				continue
			}
			c.smt.assume(implies(reach, t), "assumed ensures of "+name+": "+cl.Text)
		}
	}
	return packResults(resT, results)
}

// havocAllBut forgets the heap except the field heaps of the named struct types (ownership
// assumption stated by a `preserves` clause) that are not in `except`.
func (c *FnCtx) havocAllBut(st *State, preserve []string, except map[string]bool) {
	keep := map[string]string{}
	for _, h := range sortedKeys(c.heapSorts) {
		for _, tn := range preserve {
			if strings.HasPrefix(h, "F."+sanitize(tn)+".") && !except[h] {
				keep[h] = c.heapGet(st, h, c.heapSorts[h])
			}
		}
	}
	// preserves elems(T): backing arrays whose Go element type is T keep their contents (the callee does not write
	// through slices of T it does not own -- an ownership assumption like the others)
	type keptElems struct {
		heap, sort, old string
		tag        int
	}
	var kept []keptElems
	for _, tn := range preserve {
		if !strings.HasPrefix(tn, "elems(") || !strings.HasSuffix(tn, ")") {
			continue
		}
		ct, err := parseCType(tn[6 : len(tn)-1])
		if err != nil {
			c.unsupported("preserves " + tn + ": " + err.Error())
			continue
		}
		env := &CEnv{c: c, names: map[string]Val{}, st: st}
		if c.fn != nil && c.fn.Pkg != nil {
			env.pkg = c.fn.Pkg.Pkg
		}
		et, err := env.resolveType(ct)
		if err != nil {
			c.unsupported("preserves " + tn + ": " + err.Error())
			continue
		}
		hn, hs := c.elemHeap(et)
		if except[hn] {
			continue
		}
		kept = append(kept, keptElems{hn, hs, c.heapGet(st, hn, hs), goTypeTag(et)})
	}
	oldAlloc := c.heapGet(st, "alloc", allocSort)
	c.havocAll(st)
	for k, v := range keep {
		st.heaps[k] = v
	}
	for _, ke := range kept {
		nh := c.heapGet(st, ke.heap, ke.sort)
		c.smt.assume(fmt.Sprintf("(forall ((r Int)) (! (=> (= (arr_ty r) %d) (= (select %s r) (select %s r))) :pattern ((select %s r))))", ke.tag, nh, ke.old, nh), "preserves elems(...): arrays of this element type keep their contents (ownership assumption)")
	}
	na := c.heapGet(st, "alloc", allocSort)
	c.smt.assume(fmt.Sprintf("(forall ((r Int)) (! (=> (select %s r) (select %s r)) :pattern ((select %s r)) :pattern ((select %s r))))", oldAlloc, na, na, oldAlloc), "allocation only grows")
}

// singleVarArg recognises append(s, x): the compiler stores x into a fresh [1]T array and
// appends the slice of it; returns the stored value.
func singleVarArg(cc *ssa.CallCommon) (ssa.Value, bool) {
	if len(cc.Args) != 2 {
		return nil, false
	}
	sl, ok := cc.Args[1].(*ssa.Slice)
	if !ok || sl.Low != nil || sl.High != nil || sl.Max != nil {
		return nil, false
	}
	al, ok := sl.X.(*ssa.Alloc)
	if !ok {
		return nil, false
	}
	arr, ok := al.Type().(*types.Pointer).Elem().Underlying().(*types.Array)
	if !ok || arr.Len() != 1 {
		return nil, false
	}
	// the only uses of the array: one IndexAddr [0] with one Store, and this Slice
	var stored ssa.Value
	for _, ref := range *al.Referrers() {
		switch r := ref.(type) {
		case *ssa.IndexAddr:
			for _, rr := range *r.Referrers() {
				st, ok := rr.(*ssa.Store)
				if !ok || st.Addr != r || stored != nil {
					return nil, false
				}
				stored = st.Val
			}
		case *ssa.Slice:
			if r != sl {
				return nil, false
			}
		default:
			return nil, false
		}
	}
	if stored == nil {
		return nil, false
	}
	return stored, true
}

// appendOne: append(s, v) without quantifiers on the in-place path.
func (fr *Frame) appendOne(args []Val, v Val, resT types.Type, st *State) Val {
	c := fr.c
	s := c.termOf(args[0])
	et := resT.Underlying().(*types.Slice).Elem()
	es := c.sortOf(et)
	name, sort := c.elemHeap(et)
	h := c.heapGet(st, name, sort)
	vt := c.termOf(v)
	newLen := c.smt.define("aplen", "Int", app("+", app("sl_len", s), "1"))
	inPlace := c.smt.define("apinplace", "Bool", and(app("<=", newLen, app("sl_cap", s)), not(eq(app("sl_base", s), "0"))))
	nb := c.smt.declareFresh("new.append", "Int")
	al := c.heapGet(st, "alloc", allocSort)
	c.smt.assume(and(app(">", nb, "0"), not(sel(al, nb))), "fresh backing array")
	ncap := c.smt.declareFresh("apcap", "Int")
	c.smt.assume(and(app(">=", ncap, newLen), app("<=", ncap, "72057594037927936")), "")
	r := c.smt.define("ap", "Slice", ite(inPlace,
		fmt.Sprintf("(mk_slice (sl_base %s) (sl_off %s) %s (sl_cap %s))", s, s, newLen, s),
		fmt.Sprintf("(mk_slice %s (sl_off %s) %s %s)", nb, s, newLen, ncap)))
	oldArr := sel(h, app("sl_base", s))
	// reallocation: the prefix is copied
	arr := c.smt.declareFresh("aparr", "(Array Int "+es+")")
	c.smt.assume(fmt.Sprintf("(forall ((i Int)) (! (=> (and (<= (sl_off %[1]s) i) (< i (+ (sl_off %[1]s) (sl_len %[1]s)))) (= (select %[2]s i) (select %[3]s i))) :pattern ((select %[2]s i))))", s, arr, oldArr), "append: contents (same offset in the fresh array)")
	c.smt.assume(eq(sel(arr, app("+", app("sl_off", s), app("sl_len", s))), vt), "append: appended element")
	c.heapSet(st, name, sort, ite(inPlace,
		sto(h, app("sl_base", s), sto(oldArr, app("+", app("sl_off", s), app("sl_len", s)), vt)),
		sto(h, nb, arr)))
	c.heapSet(st, "alloc", allocSort, ite(inPlace, al, sto(al, nb, "true")))
	return Val{T: resT, Term: r}
}

// callsiteChecks: `callsite <name> requires e` clauses of the enclosing function's contract are
// obligations at every call of a function or method with that name; e is evaluated with the
// callee's parameter names bound to the arguments (and the caller's own names available).
func (fr *Frame) callsiteChecks(cc *ssa.CallCommon, args []Val, st *State, reach string, pos token.Pos) {
	ct := fr.contract
	if ct == nil && fr.fn != nil && fr.fn.Parent() != nil && fr.c.contract != nil && fr.fn.Parent() == fr.c.fn {
		// a closure of the function under verification that has no contract of its own and is executed inline
		// (a deferred func(){...}()): the enclosing function's call-site clauses apply to its calls too
		ct = fr.c.contract
	}
	if ct == nil {
		return
	}
	var name string
	var sig *types.Signature
	var recvArg *Val
	if cc.IsInvoke() {
		name = cc.Method.Name()
		sig = cc.Method.Type().(*types.Signature)
		rv := fr.val(cc.Value, st)
		recvArg = &rv
	} else if f := cc.StaticCallee(); f != nil {
		name = f.Name()
		if o := f.Origin(); o != nil {
			// an instance of a generic function goes by the generic function's name
			name = o.Name()
		}
		sig = f.Signature
		if sig.Recv() != nil && len(args) > 0 {
			recvArg = &args[0]
			args = args[1:]
		}
	} else if _, isBuiltin := cc.Value.(*ssa.Builtin); !isBuiltin {
		// a call through a function value goes by the name of the variable or field it is called through
		name = fr.callName(cc, pos)
		sig = cc.Signature()
		if name == "" || name == "?" || sig == nil {
			return
		}
	} else {
		return
	}
	for _, cl := range ct.clauses("callsite") {
		if cl.Label != name {
			if j := strings.Index(cl.Label, "["); j > 0 && strings.HasSuffix(cl.Label, "]") {
				// Name[text]: the calls of Name whose source text contains `text` (robust against reordering of calls)
				if cl.Label[:j] != name || !strings.Contains(strings.Join(strings.Fields(fr.c.eng.srcText(pos, "call")), ""), cl.Label[j+1:len(cl.Label)-1]) {
					continue
				}
			} else {
				// Name#k: the k-th call of Name in source order
				i := strings.Index(cl.Label, "#")
				if i < 0 || cl.Label[:i] != name || cl.Label[i+1:] != fmt.Sprint(fr.callOrdinal(name, pos)) {
					continue
				}
			}
		}
		if fr.c.callsiteMatched == nil {
			fr.c.callsiteMatched = map[*Clause]bool{}
		}
		fr.c.callsiteMatched[cl] = true
		env := fr.env(st)
		// prev(e) in a callsite clause: e at the head of the current iteration of the innermost loop around the call
		if fr.curCallBlock != nil && fr.loops != nil {
			var inner *Loop
			for _, lp := range fr.loops.loops {
				if lp.body[fr.curCallBlock] && (inner == nil || len(lp.body) < len(inner.body)) {
					inner = lp
				}
			}
			if inner != nil {
				env.loopHead = fr.loopHeadState[inner]
				env.loopEntry = fr.loopEntryState[inner]
			}
		}
		for i := 0; i < sig.Params().Len() && i < len(args); i++ {
			if n := sig.Params().At(i).Name(); n != "" && n != "_" {
				v := args[i]
				v.T = sig.Params().At(i).Type()
				if env.shadowed == nil {
					env.shadowed = map[string]*Val{}
				}
				if prevV, had := env.names[n]; had {
					pv := prevV
					env.shadowed[n] = &pv
				} else {
					env.shadowed[n] = nil
				}
				env.names[n] = v
				if env.bound == nil {
					env.bound = map[string]bool{}
				}
				env.bound[n] = true // the callee's parameter, even when the caller has a variable of that name
			}
			env.names[fmt.Sprintf("arg%d", i)] = args[i]
		}
		if recvArg != nil {
			env.names["receiver"] = *recvArg
		}
		for _, cj := range conjuncts(cl.Expr) {
			t, err := env.evalBool(cj)
			if err != nil {
				fr.bindFailure(cl, err)
				continue
			}
			if cl.Assumed {
				fr.c.smt.assume(implies(reach, t), "callsite assumes (dependency behaviour): "+cl.Text)
				continue
			}
			fr.oblige("callsite", name+" requires "+cj.String(), reach, t, pos)
			fr.c.smt.assume(implies(reach, t), "callsite clause (checked above)")
		}
	}
}

// callOrdinal: 1-based rank (by source position) of the call at pos among the calls of functions
// or methods called `name` in this frame's function.
func (fr *Frame) callOrdinal(name string, pos token.Pos) int {
	var ps []token.Pos
	for _, b := range fr.fn.Blocks {
		for _, in := range b.Instrs {
			var cc *ssa.CallCommon
			switch x := in.(type) {
			case *ssa.Call:
				cc = x.Common()
			case *ssa.Defer:
				cc = x.Common()
			case *ssa.Go:
				cc = x.Common()
			}
			if cc == nil {
				continue
			}
			n := ""
			if cc.IsInvoke() {
				n = cc.Method.Name()
			} else if f := cc.StaticCallee(); f != nil {
				n = f.Name()
			}
			if n == name {
				ps = append(ps, in.Pos())
			}
		}
	}
	k := 1
	for _, p := range ps {
		if p < pos {
			k++
		}
	}
	return k
}

// ---- ghost call counters: calls(Name) is the number of call instructions named Name executed so far by the function
// under verification (helpers inlined into it included; calls made inside callees that are summarised by their
// contract are not counted unless that contract says `modifies calls(Name)` and states the new count) -----------------

var callNameIDs = map[string]int{}
var callNameMu sync.Mutex

func callNameID(n string) int {
	callNameMu.Lock()
	defer callNameMu.Unlock()
	if id, ok := callNameIDs[n]; ok {
		return id
	}
	id := len(callNameIDs) + 1
	callNameIDs[n] = id
	return id
}

// callName: the name a call goes by in contracts: the function or method name for static and interface calls, the
// selected field or variable name for calls through function values (stream.Cb(errs) -> "Cb").
func (fr *Frame) callName(cc *ssa.CallCommon, pos token.Pos) string {
	if cc.IsInvoke() {
		return cc.Method.Name()
	}
	if f := cc.StaticCallee(); f != nil {
		return f.Name()
	}
	t := fr.c.eng.srcText(pos, "call")
	if i := strings.Index(t, "("); i > 0 {
		t = t[:i]
	}
	if i := strings.LastIndex(t, "."); i >= 0 {
		t = t[i+1:]
	}
	return strings.TrimSpace(t)
}

// callQualName: "recv.Name" for a method or field call written x.y.recv.Name(...): lets contracts tell wg.Done from ctx.Done.
func (fr *Frame) callQualName(pos token.Pos) string {
	t := fr.c.eng.srcText(pos, "call")
	if i := strings.Index(t, "("); i > 0 {
		t = t[:i]
	}
	parts := strings.Split(strings.TrimSpace(t), ".")
	if len(parts) < 2 {
		return ""
	}
	q := parts[len(parts)-2] + "." + parts[len(parts)-1]
	for _, r := range q {
		if !(r == '.' || r == '_' || r >= '0' && r <= '9' || r >= 'a' && r <= 'z' || r >= 'A' && r <= 'Z') {
			return ""
		}
	}
	return q
}

func (fr *Frame) countCall(name string, st *State) {
	c := fr.c
	if name == "" || name == "?" {
		return
	}
	g := "calls"
	c.ghostSorts[g] = "(Array Int Int)"
	cur, ok := st.ghost[g]
	if !ok {
		cur = c.ghostInit(g)
	}
	id := fmt.Sprint(callNameID(name))
	st.ghost[g] = c.smt.define("calls", "(Array Int Int)", sto(cur, id, app("+", sel(cur, id), "1")))
}

func (fr *Frame) goOrdinal(x *ssa.Go) int {
	k := 1
	for _, b := range fr.fn.Blocks {
		for _, in := range b.Instrs {
			if g, ok := in.(*ssa.Go); ok && g != x && g.Pos() < x.Pos() {
				k++
			}
		}
	}
	return k
}

// mentionsInternals: the expression talks about the function's own locals or the results of calls it made
// (local(x), lastresult(N, k)); such a postcondition is checked in the function and skipped at its call sites.
func mentionsInternals(e *CExpr) bool {
	if e == nil {
		return false
	}
	if e.Op == "call" && (e.Name == "lastresult" || e.Name == "local") {
		return true
	}
	for _, a := range e.Args {
		if mentionsInternals(a) {
			return true
		}
	}
	for _, a := range e.Trig {
		if mentionsInternals(a) {
			return true
		}
	}
	return false
}

func mentionsCall(e *CExpr, name string) bool {
	if e == nil {
		return false
	}
	if e.Op == "call" && e.Name == name {
		return true
	}
	for _, a := range e.Args {
		if mentionsCall(a, name) {
			return true
		}
	}
	return false
}
