package main

// Evaluation of contract expressions to SMT terms in a symbolic state.

import (
	"fmt"
	"go/constant"
	"go/token"
	"go/types"
	"math/big"
	"strconv"
	"strings"

	"golang.org/x/tools/go/ssa"
)

type CEnv struct {
	c         *FnCtx
	fr        *Frame        // for resolving local variables (nil at call sites)
	fn        *ssa.Function // function whose contract this is
	pkg       *types.Package
	names     map[string]Val
	st        *State
	old       *State
	shadowed  map[string]*Val // callsite clauses: the caller's own meaning of names hidden by the callee's parameter names (caller(e))
	outerFr   *Frame // iter invariants: the frame that called the iterator (outer(e))
	loopEntry *State
	loopHead  *State // step clauses: the state at the head of the current iteration
	results   []Val
	useLocals bool
	inOld     bool
	atPos     token.Pos
	done      func(n, t string) string // iterator invariants: entries already visited
	parentEntry *State // closures: the state in which the enclosing function was entered (pfresh)
	bound     map[string]bool // names bound by quantifiers / predicate parameters (never shadowed by locals)
	rangeAllocs map[string]*ssa.Alloc // loop invariants: rangeindex (this loop's), rangeindexN (loop N's) hidden range counters
}

var (
	tInt   = types.Typ[types.Int]
	tBool  = types.Typ[types.Bool]
	tFloat = types.Typ[types.Float64]
	tStr   = types.Typ[types.String]
	tUInt  = types.Typ[types.UntypedInt]
	tUFlt  = types.Typ[types.UntypedFloat]
)

// specType wraps spec-only types as named Go types so that Val.T can carry them.
type specSet struct{ elem types.Type }

func (s *specSet) Underlying() types.Type { return s }
func (s *specSet) String() string         { return "set[" + s.elem.String() + "]" }

// env for the function being verified (pre/post/invariants).
func (fr *Frame) env(st *State) *CEnv {
	e := &CEnv{c: fr.c, fr: fr, fn: fr.fn, names: map[string]Val{}, st: st, old: fr.entry, useLocals: true}
	if fr.fn.Pkg != nil {
		e.pkg = fr.fn.Pkg.Pkg
	} else if fr.fn.Parent() != nil && fr.fn.Parent().Pkg != nil {
		e.pkg = fr.fn.Parent().Pkg.Pkg
	}
	for i, p := range fr.fn.Params {
		if i < len(fr.params) {
			e.names[p.Name()] = fr.params[i]
		}
	}
	e.parentEntry = fr.parentEntryOf(fr.fn)
	if fr.fn.Parent() != nil {
		// outer(e): the activation of the lexically enclosing function, when this closure runs inline under it
		for f := fr.parent; f != nil; f = f.parent {
			if f.fn == fr.fn.Parent() {
				e.outerFr = f
				break
			}
		}
	}
	return e
}

// parentEntryOf: the entry state of the activation of fn's enclosing function. Inside that
// activation (inlined iterator frames included) it is the real entry state; when a closure is
// verified on its own it is an unknown earlier state (allocation only grew since).
func (fr *Frame) parentEntryOf(fn *ssa.Function) *State {
	if fn == nil || fn.Parent() == nil {
		return nil
	}
	for f := fr; f != nil; f = f.parent {
		if f.fn == fn.Parent() {
			return f.entry
		}
	}
	c := fr.c
	if c.parentState == nil {
		ps := newState()
		ps.heaps["alloc"] = c.smt.declare("alloc@parent", allocSort)
		top := fr
		for top.parent != nil {
			top = top.parent
		}
		cur := c.heapGet(top.entry, "alloc", allocSort)
		c.smt.assume(fmt.Sprintf("(forall ((r Int)) (! (=> (select alloc@parent r) (select %s r)) :pattern ((select alloc@parent r)) :pattern ((select %s r))))", cur, cur), "allocation only grows")
		c.parentState = ps
	}
	return c.parentState
}

// env for a callee's contract at a call site.
func (c *FnCtx) calleeEnv(callee *ssa.Function, fv *FnVal, args []Val, st *State) *CEnv {
	e := &CEnv{c: c, fn: callee, names: map[string]Val{}, st: st, old: st}
	pk := callee
	for pk.Pkg == nil && pk.Parent() != nil {
		pk = pk.Parent()
	}
	if pk.Pkg != nil {
		e.pkg = pk.Pkg.Pkg
	}
	for i, p := range callee.Params {
		if i < len(args) {
			v := args[i]
			v.T = p.Type()
			e.names[p.Name()] = v
		}
	}
	if fv != nil {
		for i, f := range callee.FreeVars {
			if i < len(fv.Bindings) {
				e.names["&"+f.Name()] = fv.Bindings[i]
			}
		}
	}
	return e
}

func (e *CEnv) sub() *CEnv {
	n := *e
	n.names = make(map[string]Val, len(e.names))
	for k, v := range e.names {
		n.names[k] = v
	}
	n.bound = make(map[string]bool, len(e.bound))
	for k := range e.bound {
		n.bound[k] = true
	}
	return &n
}

func (e *CEnv) evalBool(x *CExpr) (string, error) {
	v, err := e.eval(x)
	if err != nil {
		return "", err
	}
	if v.T != nil && !isBool(v.T) {
		return "", fmt.Errorf("expression %s is not boolean", x)
	}
	return v.Term, nil
}

func (e *CEnv) eval(x *CExpr) (Val, error) {
	c := e.c
	switch x.Op {
	case "int":
		n, ok := new(big.Int).SetString(x.Name, 0)
		if !ok {
			return Val{}, fmt.Errorf("bad integer %s", x.Name)
		}
		return Val{T: tUInt, Term: bigTerm(n)}, nil
	case "float":
		f, err := strconv.ParseFloat(x.Name, 64)
		if err != nil {
			return Val{}, err
		}
		return Val{T: tUFlt, Term: c.floatLit(f)}, nil
	case "string":
		return Val{T: tStr, Term: c.strLit(x.Name)}, nil
	case "char":
		return Val{T: tUInt, Term: fmt.Sprint(int(x.Name[0]))}, nil
	case "bool":
		return Val{T: tBool, Term: x.Name}, nil
	case "nil":
		return Val{T: types.Typ[types.UntypedNil], Term: "0"}, nil
	case "result":
		if len(e.results) == 0 {
			return Val{}, fmt.Errorf("result used but function has no result")
		}
		return e.results[0], nil
	case "pre":
		// pre(e): e in the state at entry of the loop whose invariant this is
		if e.loopEntry == nil {
			return Val{}, fmt.Errorf("pre() is only available in loop invariants")
		}
		n := e.sub()
		n.st = e.loopEntry
		return n.eval(x.Args[0])
	case "prev":
		// prev(e): e in the state at the head of the current iteration (step clauses only)
		if e.loopHead == nil {
			return Val{}, fmt.Errorf("prev() is only available in loop step clauses")
		}
		n := e.sub()
		n.st = e.loopHead
		return n.eval(x.Args[0])
	case "old":
		if e.old == nil {
			return Val{}, fmt.Errorf("old() not available here")
		}
		n := e.sub()
		n.st = e.old
		n.inOld = true
		return n.eval(x.Args[0])
	case "ident":
		return e.ident(x.Name)
	case "field":
		return e.field(x)
	case "index":
		return e.index(x)
	case "slice":
		return e.sliceExpr(x)
	case "unary":
		a, err := e.eval(x.Args[0])
		if err != nil {
			return Val{}, err
		}
		switch x.Name {
		case "!":
			return Val{T: tBool, Term: not(a.Term)}, nil
		case "-":
			if isFloat(a.T) {
				if c.floatsIEEE {
					return Val{T: a.T, Term: app("fp.neg", a.Term)}, nil
				}
			}
			return Val{T: a.T, Term: app("-", a.Term)}, nil
		}
	case "binary":
		return e.binary(x)
	case "forall", "exists":
		n := e.sub()
		var decls, guards []string
		for _, v := range x.Vars {
			t, err := e.resolveType(v.Type)
			if err != nil {
				return Val{}, err
			}
			vn := "q." + v.Name
			// avoid capture across nested quantifiers with the same name
			c.smt.nextID++
			vn = fmt.Sprintf("%s!%d", vn, c.smt.nextID)
			decls = append(decls, fmt.Sprintf("(%s %s)", vn, c.sortOf(t)))
			n.names[v.Name] = Val{T: t, Term: vn}
			n.bound[v.Name] = true
			if b, ok := t.Underlying().(*types.Basic); ok && b.Kind() != types.Int && b.Info()&types.IsInteger != 0 {
				guards = append(guards, rangeFact(t, vn))
			}
		}
		body, err := n.evalBool(x.Args[0])
		if err != nil {
			return Val{}, err
		}
		var pats []string
		for _, tr := range x.Trig {
			tv, err := n.eval(tr)
			if err != nil {
				return Val{}, err
			}
			pats = append(pats, tv.Term)
		}
		g := and(guards...)
		if x.Op == "forall" {
			body = implies(g, body)
		} else {
			body = and(g, body)
		}
		if len(pats) > 0 {
			body = fmt.Sprintf("(! %s :pattern (%s))", body, strings.Join(pats, " "))
		}
		return Val{T: tBool, Term: fmt.Sprintf("(%s (%s) %s)", x.Op, strings.Join(decls, " "), body)}, nil
	case "call":
		return e.callExpr(x)
	}
	return Val{}, fmt.Errorf("cannot evaluate %s", x)
}

func (e *CEnv) ident(name string) (Val, error) {
	c := e.c
	if e.bound[name] {
		return e.names[name], nil
	}
	if v, ok := e.names[name]; ok && !(e.useLocals && !e.inOld && e.localShadows(name)) {
		return v, nil
	}
	if strings.HasPrefix(name, "result") && len(name) > 6 {
		if i, err := strconv.Atoi(name[6:]); err == nil && i < len(e.results) {
			return e.results[i], nil
		}
	}
	// named results
	if e.fn != nil && len(e.results) > 0 {
		rs := e.fn.Signature.Results()
		for i := 0; i < rs.Len(); i++ {
			if rs.At(i).Name() == name && i < len(e.results) {
				return e.results[i], nil
			}
		}
	}
	// local variables of the frame (loop invariants)
	if e.useLocals && e.fr != nil && !e.inOld {
		if v, ok := e.localVar(name); ok {
			return v, nil
		}
	}
	if v, ok := e.names[name]; ok {
		return v, nil
	}
	// captured variables of a closure
	if e.fn != nil {
		for i, fv := range e.fn.FreeVars {
			if fv.Name() == name {
				var pv Val
				if b, ok := e.names["&"+name]; ok {
					pv = b
				} else if e.fr != nil {
					pv = e.fr.val(fv, e.st)
				} else {
					return Val{}, fmt.Errorf("free variable %s not bound", name)
				}
				_ = i
				if strings.HasPrefix(e.fn.Synthetic, "bound method wrapper") {
					// the receiver of a bound method is captured by value
					pv.T = fv.Type()
					return pv, nil
				}
				if pv.Addr != nil {
					v := c.load(e.st, pv.Addr)
					v.T = fv.Type().(*types.Pointer).Elem()
					return v, nil
				}
				if _, ok := ptrToStruct(fv.Type()); ok && pv.Term != "" {
					// a captured struct variable lives on the heap: the name denotes (a pointer to) that object
					pv.T = fv.Type()
					return pv, nil
				}
				return Val{}, fmt.Errorf("free variable %s has no cell", name)
			}
		}
	}
	// ghost variables
	if g, ok := e.st.ghost[name]; ok {
		return Val{T: c.ghostTypes[name], Term: g}, nil
	}
	if _, ok := c.ghostSorts[name]; ok {
		return Val{T: c.ghostTypes[name], Term: c.ghostInit(name)}, nil
	}
	// package-level objects
	if e.pkg != nil {
		if obj := e.pkg.Scope().Lookup(name); obj != nil {
			return e.pkgObject(obj)
		}
	}
	if obj := types.Universe.Lookup(name); obj != nil {
		if k, ok := obj.(*types.Const); ok {
			return e.constObj(k)
		}
	}
	return Val{}, fmt.Errorf("unknown identifier %q", name)
}

func (e *CEnv) localShadows(name string) bool {
	if e.fr == nil {
		return false
	}
	_, ok := e.localVar(name)
	return ok
}

// localVar finds the cell of a source variable by name among the executed Allocs of the frame.
func (e *CEnv) localVar(name string) (Val, bool) {
	var best *ssa.Alloc
	if al := e.rangeAllocs[name]; al != nil {
		if v, have := e.fr.vals[al]; have && v.Addr != nil {
			if _, live := e.st.cells[v.Addr.CellID]; live || v.Addr.Kind != akLocal {
				best = al
			}
		}
		if best == nil {
			return Val{}, false
		}
	} else if strings.HasPrefix(name, "rangeindex") && e.rangeAllocs != nil {
		return Val{}, false
	}
	for _, b := range e.fr.fn.Blocks {
		for _, in := range b.Instrs {
			al, ok := in.(*ssa.Alloc)
			if !ok || al.Comment != name {
				continue
			}
			v, have := e.fr.vals[al]
			if have && v.Addr == nil && al.Heap && v.Term != "" {
				// an escaping struct variable is an object on the heap: its value is read field by field
				if _, ok := al.Type().(*types.Pointer).Elem().Underlying().(*types.Struct); ok {
					if best == nil || al.Pos() > best.Pos() {
						best = al
					}
				}
				continue
			}
			if !have || v.Addr == nil {
				continue
			}
			if v.Addr.Kind == akLocal {
				if _, live := e.st.cells[v.Addr.CellID]; !live {
					continue
				}
			}
			if e.rangeAllocs[name] != nil {
				continue
			}
			if best == nil || al.Pos() > best.Pos() {
				best = al
			}
		}
	}
	if best == nil {
		return Val{}, false
	}
	pv := e.fr.vals[best]
	if pv.Addr == nil {
		et := best.Type().(*types.Pointer).Elem()
		st0 := et.Underlying().(*types.Struct)
		var fs []string
		for i := 0; i < st0.NumFields(); i++ {
			name, sort := e.c.fieldHeap(et, i)
			fs = append(fs, sel(e.c.heapGet(e.st, name, sort), pv.Term))
		}
		return Val{T: et, Term: e.c.structMk(et, fs)}, true
	}
	v := e.c.load(e.st, pv.Addr)
	v.T = best.Type().(*types.Pointer).Elem()
	return v, true
}

func (e *CEnv) pkgObject(obj types.Object) (Val, error) {
	c := e.c
	switch o := obj.(type) {
	case *types.Const:
		return e.constObj(o)
	case *types.Var:
		// package-level variable
		p := c.eng.prog.Package(o.Pkg())
		if p == nil {
			return Val{}, fmt.Errorf("package of %s not loaded", o.Name())
		}
		g, ok := p.Members[o.Name()].(*ssa.Global)
		if !ok {
			return Val{}, fmt.Errorf("%s is not a global", o.Name())
		}
		a := &Addr{Kind: akGlobal, Global: g, RootT: o.Type()}
		v := c.load(e.st, a)
		v.T = o.Type()
		return v, nil
	case *types.Func:
		p := c.eng.prog.Package(o.Pkg())
		if p == nil {
			return Val{}, fmt.Errorf("package of %s not loaded", o.Name())
		}
		f := p.Func(o.Name())
		if f == nil {
			return Val{}, fmt.Errorf("no function %s", o.Name())
		}
		return Val{T: o.Type(), Term: c.fnID(&FnVal{Fn: f}), Fn: &FnVal{Fn: f}}, nil
	}
	return Val{}, fmt.Errorf("unsupported package object %s", obj.Name())
}

func (e *CEnv) constObj(k *types.Const) (Val, error) {
	c := e.c
	switch k.Val().Kind() {
	case constant.Int:
		s := k.Val().ExactString()
		if strings.HasPrefix(s, "-") {
			s = "(- " + s[1:] + ")"
		}
		return Val{T: k.Type(), Term: s}, nil
	case constant.Bool:
		return Val{T: tBool, Term: fmt.Sprint(constant.BoolVal(k.Val()))}, nil
	case constant.String:
		return Val{T: k.Type(), Term: c.strLit(constant.StringVal(k.Val()))}, nil
	case constant.Float:
		f, _ := constant.Float64Val(k.Val())
		return Val{T: k.Type(), Term: c.floatLit(f)}, nil
	}
	return Val{}, fmt.Errorf("unsupported constant %s", k.Name())
}

func (e *CEnv) importedPkg(name string) *types.Package {
	if e.pkg == nil {
		return nil
	}
	for _, imp := range e.pkg.Imports() {
		if imp.Name() == name {
			return imp
		}
	}
	return nil
}

func (e *CEnv) field(x *CExpr) (Val, error) {
	c := e.c
	// qualified identifier pkg.Name ?
	if x.Args[0].Op == "ident" {
		if _, isVar := e.names[x.Args[0].Name]; !isVar {
			if _, err := e.ident(x.Args[0].Name); err != nil {
				if p := e.importedPkg(x.Args[0].Name); p != nil {
					obj := p.Scope().Lookup(x.Name)
					if obj == nil {
						return Val{}, fmt.Errorf("%s.%s not found", x.Args[0].Name, x.Name)
					}
					return e.pkgObject(obj)
				}
			}
		}
	}
	base, err := e.eval(x.Args[0])
	if err != nil {
		return Val{}, err
	}
	if base.T == nil {
		return Val{}, fmt.Errorf("no type for %s", x.Args[0])
	}
	// pointer to struct: heap read
	if stT, ok := ptrToStruct(base.T); ok {
		idx, ft, path := findField(stT, x.Name)
		if idx < 0 {
			return Val{}, fmt.Errorf("type %s has no field %s", stT, x.Name)
		}
		if len(path) > 1 {
			return Val{}, fmt.Errorf("promoted field %s not supported", x.Name)
		}
		if base.Addr != nil {
			v := c.load(e.st, base.Addr.with(PathStep{Field: idx, T: stT}))
			v.T = ft
			return v, nil
		}
		name, sort := c.fieldHeap(stT, idx)
		t := sel(c.heapGet(e.st, name, sort), base.Term)
		if !strings.Contains(base.Term, "q.") {
			c.heapTyped(ft, t)
			c.closedHeap(e.st, ft, t, 0)
		}
		return Val{T: ft, Term: t}, nil
	}
	if _, ok := base.T.Underlying().(*types.Struct); ok {
		idx, ft, _ := findField(base.T, x.Name)
		if idx < 0 {
			return Val{}, fmt.Errorf("type %s has no field %s", base.T, x.Name)
		}
		return Val{T: ft, Term: c.structGet(base.T, base.Term, idx)}, nil
	}
	return Val{}, fmt.Errorf("cannot select .%s from %s (type %s)", x.Name, x.Args[0], base.T)
}

func findField(st types.Type, name string) (int, types.Type, []int) {
	s, ok := st.Underlying().(*types.Struct)
	if !ok {
		return -1, nil, nil
	}
	for i := 0; i < s.NumFields(); i++ {
		if s.Field(i).Name() == name {
			return i, s.Field(i).Type(), []int{i}
		}
	}
	return -1, nil, nil
}

func (e *CEnv) index(x *CExpr) (Val, error) {
	c := e.c
	base, err := e.eval(x.Args[0])
	if err != nil {
		return Val{}, err
	}
	idx, err := e.eval(x.Args[1])
	if err != nil {
		return Val{}, err
	}
	switch u := base.T.Underlying().(type) {
	case *types.Slice:
		name, sort := c.elemHeap(u.Elem())
		s := base.Term
		return Val{T: u.Elem(), Term: sel(sel(c.heapGet(e.st, name, sort), slBase(c.smt, s)), elemIdx(slOff(c.smt, s), idx.Term, refElem(u.Elem())))}, nil
	case *types.Map:
		has, val := c.mapRead(e.st, base.T, base.Term, idx.Term)
		t := val
		c.mapZeroFact(has, val, u.Elem())
		if !strings.Contains(t, "q.") {
			c.heapTyped(u.Elem(), t)
			c.closedHeap(e.st, u.Elem(), t, 0)
		}
		return Val{T: u.Elem(), Term: t}, nil
	case *types.Basic:
		if isString(base.T) {
			return Val{T: types.Typ[types.Byte], Term: app("sbyte", base.Term, idx.Term)}, nil
		}
	case *types.Array:
		return Val{T: u.Elem(), Term: sel(base.Term, idx.Term)}, nil
	case *specSet:
		return Val{T: tBool, Term: sel(base.Term, idx.Term)}, nil
	}
	return Val{}, fmt.Errorf("cannot index %s (type %s)", x.Args[0], base.T)
}

func (e *CEnv) sliceExpr(x *CExpr) (Val, error) {
	c := e.c
	base, err := e.eval(x.Args[0])
	if err != nil {
		return Val{}, err
	}
	lo, hi := "0", ""
	if x.Args[1] != nil {
		v, err := e.eval(x.Args[1])
		if err != nil {
			return Val{}, err
		}
		lo = v.Term
	}
	if x.Args[2] != nil {
		v, err := e.eval(x.Args[2])
		if err != nil {
			return Val{}, err
		}
		hi = v.Term
	}
	switch base.T.Underlying().(type) {
	case *types.Slice:
		s := base.Term
		if hi == "" {
			hi = app("sl_len", s)
		}
		return Val{T: base.T, Term: fmt.Sprintf("(mk_slice (sl_base %s) (+ (sl_off %s) %s) (- %s %s) (- (sl_cap %s) %s))", s, s, lo, hi, lo, s, lo)}, nil
	case *types.Basic:
		if hi == "" {
			hi = app("slen", base.Term)
		}
		return c.strSub(base, lo, hi), nil
	}
	return Val{}, fmt.Errorf("cannot slice %s", x.Args[0])
}

func (e *CEnv) binary(x *CExpr) (Val, error) {
	c := e.c
	op := x.Name
	// short-circuit connectives
	switch op {
	case "&&", "||", "==>", "<==>":
		a, err := e.evalBool(x.Args[0])
		if err != nil {
			return Val{}, err
		}
		b, err := e.evalBool(x.Args[1])
		if err != nil {
			return Val{}, err
		}
		switch op {
		case "&&":
			return Val{T: tBool, Term: and(a, b)}, nil
		case "||":
			return Val{T: tBool, Term: or(a, b)}, nil
		case "==>":
			return Val{T: tBool, Term: implies(a, b)}, nil
		default:
			return Val{T: tBool, Term: eq(a, b)}, nil
		}
	}
	a, err := e.eval(x.Args[0])
	if err != nil {
		return Val{}, err
	}
	b, err := e.eval(x.Args[1])
	if err != nil {
		return Val{}, err
	}
	if op == "in" {
		switch u := b.T.Underlying().(type) {
		case *types.Map:
			has, _ := c.mapRead(e.st, b.T, b.Term, a.Term)
			return Val{T: tBool, Term: has}, nil
		case *specSet:
			_ = u
			return Val{T: tBool, Term: sel(b.Term, a.Term)}, nil
		}
		return Val{}, fmt.Errorf("'in' needs a map or set, got %s", b.T)
	}
	// nil comparisons
	if op == "==" || op == "!=" {
		var t string
		switch {
		case x.Args[1].Op == "nil":
			t = c.isNil(a)
		case x.Args[0].Op == "nil":
			t = c.isNil(b)
		}
		if t != "" {
			if op == "!=" {
				t = not(t)
			}
			return Val{T: tBool, Term: t}, nil
		}
	}
	// numeric coercion
	fl := isFloat(a.T) || isFloat(b.T)
	at, bt := a.Term, b.Term
	if a.Term == "" {
		at = c.termOf(a)
	}
	if b.Term == "" {
		bt = c.termOf(b)
	}
	if fl {
		at, bt = c.toFloat(a, at), c.toFloat(b, bt)
		tok := map[string]token.Token{"+": token.ADD, "-": token.SUB, "*": token.MUL, "/": token.QUO, "==": token.EQL, "!=": token.NEQ, "<": token.LSS, "<=": token.LEQ, ">": token.GTR, ">=": token.GEQ}[op]
		rt := types.Type(tFloat)
		switch op {
		case "==", "!=", "<", "<=", ">", ">=":
			rt = tBool
		}
		return Val{T: rt, Term: c.floatBin(tok, at, bt)}, nil
	}
	rt := a.T
	if a.T == tUInt {
		rt = b.T
	}
	if rt != nil && isInteger(rt) {
		rt = tInt // contract arithmetic is mathematical
	}
	switch op {
	case "+":
		if isString(a.T) {
			return c.strConcat(Val{T: a.T, Term: at}, Val{T: a.T, Term: bt}), nil
		}
		return Val{T: rt, Term: app("+", at, bt)}, nil
	case "-":
		return Val{T: rt, Term: app("-", at, bt)}, nil
	case "*":
		return Val{T: rt, Term: app("*", at, bt)}, nil
	case "/":
		return Val{T: rt, Term: app("tdiv", at, bt)}, nil
	case "%":
		return Val{T: rt, Term: app("trem", at, bt)}, nil
	case "==":
		return Val{T: tBool, Term: eq(at, bt)}, nil
	case "!=":
		return Val{T: tBool, Term: not(eq(at, bt))}, nil
	case "<", "<=", ">", ">=":
		return Val{T: tBool, Term: app(op, at, bt)}, nil
	}
	return Val{}, fmt.Errorf("unsupported operator %s", op)
}

func (c *FnCtx) toFloat(v Val, t string) string {
	if isFloat(v.T) {
		return t
	}
	// integer (literal or term) to float
	if c.floatsIEEE {
		if n, ok := smtIntValue(t); ok {
			return c.floatLit(float64(n))
		}
		return app("(_ to_fp 11 53)", "RNE", app("to_real", t))
	}
	if n, ok := smtIntValue(t); ok && !strings.ContainsAny(t, "()") {
		return fmt.Sprintf("%d.0", n)
	}
	return app("to_real", t)
}

func (c *FnCtx) isNil(v Val) string {
	if v.Addr != nil {
		return "false"
	}
	switch u := v.T.Underlying().(type) {
	case *types.Slice:
		return eq(app("sl_base", v.Term), "0")
	case *types.Pointer:
		if _, ok := u.Elem().Underlying().(*types.Struct); !ok {
			return eq(v.Term, "pnil")
		}
	}
	return eq(c.termOf(v), "0")
}

func (e *CEnv) resolveType(t *CType) (types.Type, error) {
	switch t.Kind {
	case "ptr":
		el, err := e.resolveType(t.Elem)
		if err != nil {
			return nil, err
		}
		return types.NewPointer(el), nil
	case "slice":
		el, err := e.resolveType(t.Elem)
		if err != nil {
			return nil, err
		}
		return types.NewSlice(el), nil
	case "map":
		k, err := e.resolveType(t.Key)
		if err != nil {
			return nil, err
		}
		el, err := e.resolveType(t.Elem)
		if err != nil {
			return nil, err
		}
		return types.NewMap(k, el), nil
	case "set":
		el, err := e.resolveType(t.Elem)
		if err != nil {
			return nil, err
		}
		return &specSet{el}, nil
	case "seq":
		el, err := e.resolveType(t.Elem)
		if err != nil {
			return nil, err
		}
		return types.NewArray(el, 0), nil
	}
	name := t.Name
	switch name {
	case "Str":
		return tStr, nil
	case "Int":
		return tInt, nil
	case "Real":
		return tFloat, nil
	case "Bool":
		return tBool, nil
	}
	if i := strings.Index(name, "."); i >= 0 {
		p := e.importedPkg(name[:i])
		if p == nil && e.pkg != nil && e.pkg.Name() == name[:i] {
			p = e.pkg
		}
		if p == nil {
			// search all loaded packages by name
			for _, sp := range e.c.eng.prog.AllPackages() {
				if sp.Pkg.Name() == name[:i] {
					if obj := sp.Pkg.Scope().Lookup(name[i+1:]); obj != nil {
						if tn, ok := obj.(*types.TypeName); ok {
							return tn.Type(), nil
						}
					}
				}
			}
			return nil, fmt.Errorf("unknown package in type %s", name)
		}
		obj := p.Scope().Lookup(name[i+1:])
		if tn, ok := obj.(*types.TypeName); ok {
			return tn.Type(), nil
		}
		return nil, fmt.Errorf("unknown type %s", name)
	}
	if obj := types.Universe.Lookup(name); obj != nil {
		if tn, ok := obj.(*types.TypeName); ok {
			return tn.Type(), nil
		}
	}
	if e.pkg != nil {
		if obj := e.pkg.Scope().Lookup(name); obj != nil {
			if tn, ok := obj.(*types.TypeName); ok {
				return tn.Type(), nil
			}
		}
	}
	return nil, fmt.Errorf("unknown type %s", name)
}

func (e *CEnv) callExpr(x *CExpr) (Val, error) {
	c := e.c
	evalArgs := func() ([]Val, error) {
		var vs []Val
		for _, a := range x.Args {
			v, err := e.eval(a)
			if err != nil {
				return nil, err
			}
			if v.Term == "" {
				v.Term = c.termOf(v)
			}
			vs = append(vs, v)
		}
		return vs, nil
	}
	switch x.Name {
	case "done":
		if e.done == nil {
			return Val{}, fmt.Errorf("done() is only available in iter invariants")
		}
		as, err := evalArgs()
		if err != nil {
			return Val{}, err
		}
		if len(as) != 2 {
			return Val{}, fmt.Errorf("done(name, tagsKey)")
		}
		return Val{T: tBool, Term: e.done(as[0].Term, as[1].Term)}, nil
	case "deref":
		// deref(p): the value a pointer denotes (statically known address or opaque Ptr term)
		pv, err := e.eval(x.Args[0])
		if err != nil {
			return Val{}, err
		}
		pt, ok := pv.T.Underlying().(*types.Pointer)
		if !ok {
			return Val{}, fmt.Errorf("deref of non-pointer %s", x.Args[0])
		}
		if pv.Addr != nil {
			v := c.load(e.st, pv.Addr)
			v.T = pt.Elem()
			return v, nil
		}
		if _, isStruct := pt.Elem().Underlying().(*types.Struct); isStruct {
			return Val{}, fmt.Errorf("deref of a struct pointer: use field access")
		}
		return Val{T: pt.Elem(), Term: c.ptrLoad(e.st, c.termOf(pv), pt.Elem())}, nil
	case "fieldIs":
		// fieldIs(p, T.f [, obj]): pointer p denotes field f of a T object (obj if given)
		if len(x.Args) < 2 || x.Args[1].Op != "field" || x.Args[1].Args[0].Op != "ident" {
			return Val{}, fmt.Errorf("fieldIs(p, Type.field [, obj])")
		}
		pv, err := e.eval(x.Args[0])
		if err != nil {
			return Val{}, err
		}
		st, err := e.resolveType(&CType{Kind: "name", Name: x.Args[1].Args[0].Name})
		if err != nil {
			return Val{}, err
		}
		idx, _, _ := findField(st, x.Args[1].Name)
		if idx < 0 {
			return Val{}, fmt.Errorf("no field %s", x.Args[1].Name)
		}
		hn, _ := c.fieldHeap(st, idx)
		p := c.termOf(pv)
		t := and(app("(_ is pfield)", p), eq(app("pf_id", p), fmt.Sprint(c.fieldID(hn))), not(eq(app("pf_ref", p), "0")))
		if len(x.Args) == 3 {
			ov, err := e.eval(x.Args[2])
			if err != nil {
				return Val{}, err
			}
			t = and(t, eq(app("pf_ref", p), c.termOf(ov)))
		}
		return Val{T: tBool, Term: t}, nil
	case "adler32":
		as, err := evalArgs()
		if err != nil {
			return Val{}, err
		}
		c.smt.declareFun("adler32_of_str", []string{"Str"}, "Int")
		t := app("adler32_of_str", as[0].Term)
		return Val{T: tInt, Term: t}, nil
	case "payload":
		// payload(x, T): the *T stored in interface value x (meaningful when x was built from a *T)
		if len(x.Args) != 2 {
			return Val{}, fmt.Errorf("payload(iface, StructType)")
		}
		iv, err := e.eval(x.Args[0])
		if err != nil {
			return Val{}, err
		}
		st, err := e.resolveType(&CType{Kind: "name", Name: strings.ReplaceAll(x.Args[1].String(), " ", "")})
		if err != nil {
			return Val{}, err
		}
		c.smt.declareFun("iface_payload", []string{"Int"}, "Int")
		return Val{T: types.NewPointer(st), Term: app("iface_payload", c.termOf(iv))}, nil
	case "valueIn":
		// valueIn(x, T): the T stored by value in the interface value x (meaningful when holdsValue(x, T))
		if len(x.Args) != 2 {
			return Val{}, fmt.Errorf("valueIn(iface, Type)")
		}
		iv, err := e.eval(x.Args[0])
		if err != nil {
			return Val{}, err
		}
		tt, err := e.resolveType(&CType{Kind: "name", Name: strings.ReplaceAll(x.Args[1].String(), " ", "")})
		if err != nil {
			return Val{}, err
		}
		fn := "iface_val_" + sanitize(sortTag(c.sortOf(tt)))
		c.smt.declareFun(fn, []string{"Int"}, c.sortOf(tt))
		return Val{T: tt, Term: app(fn, c.termOf(iv))}, nil
	case "holdsValue":
		// holdsValue(x, T): the dynamic type of the interface value x is exactly T (a T stored by value, also for struct types)
		if len(x.Args) != 2 {
			return Val{}, fmt.Errorf("holdsValue(iface, Type)")
		}
		iv, err := e.eval(x.Args[0])
		if err != nil {
			return Val{}, err
		}
		tt, err := e.resolveType(&CType{Kind: "name", Name: strings.ReplaceAll(x.Args[1].String(), " ", "")})
		if err != nil {
			return Val{}, err
		}
		c.smt.declareFun("iface_type", []string{"Int"}, "Int")
		it := c.termOf(iv)
		return Val{T: tBool, Term: and(not(eq(it, "0")), eq(app("iface_type", it), fmt.Sprint(goTypeTag(tt))))}, nil
	case "isType":
		// isType(x, T): the interface value x holds a *T (T a struct type), or a T for other types
		if len(x.Args) != 2 {
			return Val{}, fmt.Errorf("isType(iface, Type)")
		}
		iv, err := e.eval(x.Args[0])
		if err != nil {
			return Val{}, err
		}
		tt, err := e.resolveType(&CType{Kind: "name", Name: strings.ReplaceAll(x.Args[1].String(), " ", "")})
		if err != nil {
			return Val{}, err
		}
		if _, isStruct := tt.Underlying().(*types.Struct); isStruct {
			tt = types.NewPointer(tt)
		}
		c.smt.declareFun("iface_type", []string{"Int"}, "Int")
		it := c.termOf(iv)
		return Val{T: tBool, Term: and(not(eq(it, "0")), eq(app("iface_type", it), fmt.Sprint(goTypeTag(tt))))}, nil
	case "at":
		// at(s, k): the element at absolute position k of the backing array of slice s
		// (s[i] == at(s, off(s)+i)); quantifying over absolute positions keeps arithmetic out of patterns
		as, err := evalArgs()
		if err != nil {
			return Val{}, err
		}
		sl, ok := as[0].T.Underlying().(*types.Slice)
		if !ok {
			return Val{}, fmt.Errorf("at() needs a slice")
		}
		name, sort := c.elemHeap(sl.Elem())
		return Val{T: sl.Elem(), Term: sel(sel(c.heapGet(e.st, name, sort), app("sl_base", as[0].Term)), as[1].Term)}, nil
	case "elems":
		// elems(s): the backing array of slice s as a mathematical sequence (absolute positions)
		as, err := evalArgs()
		if err != nil {
			return Val{}, err
		}
		sl, ok := as[0].T.Underlying().(*types.Slice)
		if !ok {
			return Val{}, fmt.Errorf("elems() needs a slice")
		}
		name, sort := c.elemHeap(sl.Elem())
		return Val{T: types.NewArray(sl.Elem(), 0), Term: sel(c.heapGet(e.st, name, sort), app("sl_base", as[0].Term))}, nil
	case "sqrt":
		as, err := evalArgs()
		if err != nil {
			return Val{}, err
		}
		if c.floatsIEEE {
			return Val{T: tFloat, Term: app("fp.sqrt", "RNE", as[0].Term)}, nil
		}
		c.smt.declareFun("real_sqrt", []string{"Real"}, "Real")
		return Val{T: tFloat, Term: app("real_sqrt", c.toFloat(as[0], as[0].Term))}, nil
	case "absf":
		as, err := evalArgs()
		if err != nil {
			return Val{}, err
		}
		t := c.toFloat(as[0], as[0].Term)
		return Val{T: tFloat, Term: ite(app(">=", t, "0.0"), t, app("-", t))}, nil
	case "ctxChan":
		// ctxChan(ch): ch is a channel handed out by package context (ctx.Done()); channels made by gostatsd are not
		as, err := evalArgs()
		if err != nil {
			return Val{}, err
		}
		c.smt.declareFun("ctx_chan", []string{"Int"}, "Bool")
		return Val{T: tBool, Term: app("ctx_chan", as[0].Term)}, nil
	case "viperDuration", "viperInt", "viperBool", "viperString":
		// viperX(v, key): what v.GetX(key) returns in the engine's model of viper (a function of the object and the key)
		as, err := evalArgs()
		if err != nil {
			return Val{}, err
		}
		if len(as) != 2 {
			return Val{}, fmt.Errorf("%s(v, key)", x.Name)
		}
		declareViperFns(c)
		switch x.Name {
		case "viperBool":
			return Val{T: tBool, Term: app("viper_get_bool", as[0].Term, as[1].Term)}, nil
		case "viperString":
			return Val{T: tStr, Term: app("viper_get_str", as[0].Term, as[1].Term)}, nil
		}
		return Val{T: tInt, Term: app("viper_get_int", as[0].Term, as[1].Term)}, nil
	case "ranged":
		// ranged(): the slice the loop of this invariant ranges over (`for ... := range <expr>`), also when <expr> is a
		// call result without a name
		if e.fr == nil || e.rangeAllocs == nil || e.rangeAllocs["rangeindex"] == nil {
			return Val{}, fmt.Errorf("ranged() is only available in the invariant of a loop that ranges over a slice")
		}
		idxAlloc := e.rangeAllocs["rangeindex"]
		for _, b := range e.fr.fn.Blocks {
			for _, in := range b.Instrs {
				ia, ok := in.(*ssa.IndexAddr)
				if !ok {
					continue
				}
				ld, ok := ia.Index.(*ssa.UnOp)
				if !ok {
					if bo, isBin := ia.Index.(*ssa.BinOp); isBin {
						ld, ok = bo.X.(*ssa.UnOp)
					}
				}
				if ok && ld != nil && ld.X == ssa.Value(idxAlloc) {
					if v, have := e.fr.vals[ia.X]; have {
						return v, nil
					}
				}
			}
		}
		return Val{}, fmt.Errorf("ranged(): the ranged slice was not found")
	case "lastIndexOf", "indexOf":
		// lastIndexOf(s, sep) / indexOf(s, sep): what strings.LastIndex / strings.Index return in the engine's model
		as, err := evalArgs()
		if err != nil {
			return Val{}, err
		}
		fn := "str_lastindex"
		if x.Name == "indexOf" {
			fn = "str_index"
		}
		c.smt.declareFun(fn, []string{"Str", "Str"}, "Int")
		return Val{T: tInt, Term: app(fn, as[0].Term, as[1].Term)}, nil
	case "strsub":
		// strsub(s, lo, hi): s[lo:hi]
		as, err := evalArgs()
		if err != nil {
			return Val{}, err
		}
		c.smt.declareFun("str_sub", []string{"Str", "Int", "Int"}, "Str")
		return Val{T: tStr, Term: app("str_sub", as[0].Term, as[1].Term, as[2].Term)}, nil
	case "posInf":
		// posInf(): math.Inf(1) -- the IEEE value, or (floats real) the same uninterpreted real the model of math.Inf gives
		if c.floatsIEEE {
			return Val{T: tFloat, Term: "(_ +oo 11 53)"}, nil
		}
		c.smt.declareFun("real_inf", []string{"Int"}, "Real")
		return Val{T: tFloat, Term: app("real_inf", "1")}, nil
	case "parseFloatOK", "parseFloatVal":
		// the assumed contract of strconv.ParseFloat(s, 64): whether it succeeds, and its value, are functions of s
		as, err := evalArgs()
		if err != nil {
			return Val{}, err
		}
		c.smt.declareFun("parsefloat_val", []string{"Str"}, c.floatSort())
		c.smt.declareFun("parsefloat_err", []string{"Str"}, "Int")
		if x.Name == "parseFloatOK" {
			return Val{T: tBool, Term: eq(app("parsefloat_err", as[0].Term), "0")}, nil
		}
		return Val{T: tFloat, Term: app("parsefloat_val", as[0].Term)}, nil
	case "hasPrefix":
		as, err := evalArgs()
		if err != nil {
			return Val{}, err
		}
		c.smt.declareFun("str_hasprefix", []string{"Str", "Str"}, "Bool")
		return Val{T: tBool, Term: app("str_hasprefix", as[0].Term, as[1].Term)}, nil
	case "hasSuffix":
		as, err := evalArgs()
		if err != nil {
			return Val{}, err
		}
		c.smt.declareFun("str_hassuffix", []string{"Str", "Str"}, "Bool")
		return Val{T: tBool, Term: app("str_hassuffix", as[0].Term, as[1].Term)}, nil
	case "inOld":
		// inOld(k, m): the current value of k is a key of m as it was at function entry
		if e.old == nil || len(x.Args) != 2 {
			return Val{}, fmt.Errorf("inOld(key, map) needs an old state")
		}
		kv, err := e.eval(x.Args[0])
		if err != nil {
			return Val{}, err
		}
		n := e.sub()
		n.st = e.old
		n.inOld = true
		mv, err := n.eval(x.Args[1])
		if err != nil {
			return Val{}, err
		}
		if _, ok := mv.T.Underlying().(*types.Map); !ok {
			return Val{}, fmt.Errorf("inOld needs a map")
		}
		has, _ := c.mapRead(e.old, mv.T, mv.Term, kv.Term)
		return Val{T: tBool, Term: has}, nil
	case "join":
		// join(s, sep): strings.Join of the current contents of the string slice s
		as, err := evalArgs()
		if err != nil {
			return Val{}, err
		}
		if len(as) != 2 {
			return Val{}, fmt.Errorf("join(slice, sep)")
		}
		c.smt.declareFun("str_join", []string{"(Array Int Str)", "Int", "Int", "Str"}, "Str")
		name, sort := c.elemHeap(tStr)
		h := c.heapGet(e.st, name, sort)
		return Val{T: tStr, Term: app("str_join", sel(h, app("sl_base", as[0].Term)), app("sl_off", as[0].Term), app("sl_len", as[0].Term), as[1].Term)}, nil
	case "local":
		// local(x): the caller's local variable x, even when a bound name (a callee parameter in a callsite clause) hides it
		if len(x.Args) != 1 || (x.Args[0].Op != "ident" && x.Args[0].Op != "result") || e.fr == nil {
			return Val{}, fmt.Errorf("local(name)")
		}
		if x.Args[0].Op == "result" { // a local variable that happens to be called result
			if v, ok := e.localVar("result"); ok {
				return v, nil
			}
			return Val{}, fmt.Errorf("no local variable result")
		}
		if v, ok := e.localVar(x.Args[0].Name); ok {
			return v, nil
		}
		// the variable exists in the function but this path never declared it: its value is arbitrary here (a
		// fresh unconstrained value makes the clause harder to prove, never easier)
		for _, b := range e.fr.fn.Blocks {
			for _, in := range b.Instrs {
				if al, ok := in.(*ssa.Alloc); ok && al.Comment == x.Args[0].Name {
					return e.fr.havocVal(al.Type().(*types.Pointer).Elem(), "undeclared."+x.Args[0].Name), nil
				}
			}
		}
		return Val{}, fmt.Errorf("no local variable %s", x.Args[0].Name)
	case "outer":
		// outer(e): in an iter invariant of a closure, e read as the function that passed the closure to the iterator
		// reads it (its locals and parameters), for state the closure itself does not capture
		if e.outerFr == nil {
			return Val{}, fmt.Errorf("outer() is only available in iter invariants")
		}
		n := e.sub()
		n.fr = e.outerFr
		n.fn = e.outerFr.fn
		n.useLocals = true
		n.names = map[string]Val{}
		for i, prm := range e.outerFr.fn.Params {
			if i < len(e.outerFr.params) {
				n.names[prm.Name()] = e.outerFr.params[i]
			}
		}
		n.bound = map[string]bool{}
		return n.eval(x.Args[0])
	case "caller":
		// caller(e): e as the function under verification reads it, i.e. without the callee's parameter names that a
		// callsite clause binds (caller(metricName) is the caller's metricName, not the callee's parameter)
		n := e.sub()
		for k, pv := range e.shadowed {
			delete(n.bound, k)
			if pv != nil {
				n.names[k] = *pv
			} else {
				delete(n.names, k)
			}
		}
		n.shadowed = nil
		return n.eval(x.Args[0])
	case "param":
		// param(x): the parameter x (its entry value), even when a local variable of the same name shadows it
		n := e.sub()
		n.useLocals = false
		return n.eval(x.Args[0])
	case "final":
		// final(e): e with parameter / local names denoting their current cells (a postcondition otherwise reads a
		// parameter as its entry value)
		n := e.sub()
		n.useLocals = true
		return n.eval(x.Args[0])
	case "reNsub", "reGroup", "reName":
		as, err := evalArgs()
		if err != nil {
			return Val{}, err
		}
		c.smt.declareFun("re_nsub", []string{"Int"}, "Int")
		c.smt.declareFun("re_group", []string{"Int", "Str", "Int"}, "Str")
		c.smt.declareFun("re_name", []string{"Int", "Int"}, "Str")
		switch x.Name {
		case "reNsub":
			return Val{T: tInt, Term: app("re_nsub", as[0].Term)}, nil
		case "reGroup":
			return Val{T: tStr, Term: app("re_group", as[0].Term, as[1].Term, as[2].Term)}, nil
		}
		return Val{T: tStr, Term: app("re_name", as[0].Term, as[1].Term)}, nil
	case "regexMatch":
		as, err := evalArgs()
		if err != nil {
			return Val{}, err
		}
		c.smt.declareFun("re_match", []string{"Int", "Str"}, "Bool")
		return Val{T: tBool, Term: app("re_match", as[0].Term, as[1].Term)}, nil
	case "objOf":
		as, err := evalArgs()
		if err != nil {
			return Val{}, err
		}
		return Val{T: tInt, Term: app("pf_ref", as[0].Term)}, nil
	case "len":
		as, err := evalArgs()
		if err != nil {
			return Val{}, err
		}
		a := as[0]
		switch a.T.Underlying().(type) {
		case *types.Slice:
			return Val{T: tInt, Term: app("sl_len", a.Term)}, nil
		case *types.Basic:
			return Val{T: tInt, Term: app("slen", a.Term)}, nil
		case *types.Map:
			return Val{T: tInt, Term: c.mapLen(e.st, a.T, a.Term)}, nil
		}
		return Val{}, fmt.Errorf("len of %s", a.T)
	case "cap":
		as, err := evalArgs()
		if err != nil {
			return Val{}, err
		}
		if _, isChan := as[0].T.Underlying().(*types.Chan); isChan {
			c.smt.declareFun("chan_cap", []string{"Int"}, "Int")
			if !strings.Contains(as[0].Term, "q.") {
				c.smt.assume(and(app(">=", app("chan_cap", as[0].Term), "0"), app("<=", app("chan_cap", as[0].Term), "72057594037927936")), "capacity of a channel")
			}
			return Val{T: tInt, Term: app("chan_cap", as[0].Term)}, nil
		}
		return Val{T: tInt, Term: app("sl_cap", as[0].Term)}, nil
	case "base":
		as, err := evalArgs()
		if err != nil {
			return Val{}, err
		}
		return Val{T: tInt, Term: app("sl_base", as[0].Term)}, nil
	case "off":
		as, err := evalArgs()
		if err != nil {
			return Val{}, err
		}
		return Val{T: tInt, Term: app("sl_off", as[0].Term)}, nil
	case "allocated":
		as, err := evalArgs()
		if err != nil {
			return Val{}, err
		}
		return Val{T: tBool, Term: sel(c.heapGet(e.st, "alloc", allocSort), as[0].Term)}, nil
	case "pfresh":
		// pfresh(x): x was not allocated when the function enclosing this closure was entered
		as, err := evalArgs()
		if err != nil {
			return Val{}, err
		}
		if e.parentEntry == nil {
			return Val{}, fmt.Errorf("pfresh() is only available in contracts of closures")
		}
		return Val{T: tBool, Term: and(not(eq(as[0].Term, "0")), not(sel(c.heapGet(e.parentEntry, "alloc", allocSort), as[0].Term)))}, nil
	case "fresh":
		as, err := evalArgs()
		if err != nil {
			return Val{}, err
		}
		if e.old == nil {
			return Val{}, fmt.Errorf("fresh() needs an old state")
		}
		if _, isSlice := as[0].T.Underlying().(*types.Slice); isSlice {
			// a slice is fresh when its backing array was allocated by this call
			b := app("sl_base", as[0].Term)
			return Val{T: tBool, Term: and(not(eq(b, "0")), not(sel(c.heapGet(e.old, "alloc", allocSort), b)))}, nil
		}
		return Val{T: tBool, Term: and(not(eq(as[0].Term, "0")), not(sel(c.heapGet(e.old, "alloc", allocSort), as[0].Term)))}, nil
	case "loopFresh":
		// loopFresh(x): x was allocated after the loop (whose invariant this is) was entered
		as, err := evalArgs()
		if err != nil {
			return Val{}, err
		}
		if e.loopEntry == nil {
			return Val{}, fmt.Errorf("loopFresh() is only available in loop invariants")
		}
		return Val{T: tBool, Term: and(not(eq(as[0].Term, "0")), not(sel(c.heapGet(e.loopEntry, "alloc", allocSort), as[0].Term)))}, nil
	case "isNaN", "isInf", "isFinite", "isPosInf", "isNegInf":
		as, err := evalArgs()
		if err != nil {
			return Val{}, err
		}
		t := as[0].Term
		if !c.floatsIEEE {
			switch x.Name {
			case "isFinite":
				return Val{T: tBool, Term: "true"}, nil
			}
			return Val{T: tBool, Term: "false"}, nil
		}
		switch x.Name {
		case "isNaN":
			return Val{T: tBool, Term: app("fp.isNaN", t)}, nil
		case "isInf":
			return Val{T: tBool, Term: app("fp.isInfinite", t)}, nil
		case "isPosInf":
			return Val{T: tBool, Term: and(app("fp.isInfinite", t), app("fp.isPositive", t))}, nil
		case "isNegInf":
			return Val{T: tBool, Term: and(app("fp.isInfinite", t), app("fp.isNegative", t))}, nil
		default:
			return Val{T: tBool, Term: and(not(app("fp.isNaN", t)), not(app("fp.isInfinite", t)))}, nil
		}
	case "real":
		as, err := evalArgs()
		if err != nil {
			return Val{}, err
		}
		return Val{T: tFloat, Term: c.toFloat(as[0], as[0].Term)}, nil
	case "truncf":
		as, err := evalArgs()
		if err != nil {
			return Val{}, err
		}
		if c.floatsIEEE {
			// the same function the engine uses for int64(x) in IEEE mode (see convert)
			c.smt.declareFun("f2i_int64", []string{c.floatSort()}, "Int")
			return Val{T: tInt, Term: app("f2i_int64", as[0].Term)}, nil
		}
		t := as[0].Term
		return Val{T: tInt, Term: fmt.Sprintf("(ite (>= %s 0.0) (to_int %s) (- (to_int (- %s))))", t, t, t)}, nil
	case "floor":
		as, err := evalArgs()
		if err != nil {
			return Val{}, err
		}
		if c.floatsIEEE {
			return Val{}, fmt.Errorf("floor() only with floats real")
		}
		return Val{T: tInt, Term: app("to_int", as[0].Term)}, nil
	case "wrap64", "wrapu64", "wrapu32", "wrap32":
		as, err := evalArgs()
		if err != nil {
			return Val{}, err
		}
		tt := map[string]types.Type{"wrap64": types.Typ[types.Int64], "wrapu64": types.Typ[types.Uint64], "wrapu32": types.Typ[types.Uint32], "wrap32": types.Typ[types.Int32]}[x.Name]
		return Val{T: tInt, Term: wrapTo(tt, as[0].Term)}, nil
	case "mod":
		// Euclidean remainder (for non-negative operands the same as Go's %)
		as, err := evalArgs()
		if err != nil {
			return Val{}, err
		}
		return Val{T: tInt, Term: app("mod", as[0].Term, as[1].Term)}, nil
	case "imin", "imax":
		as, err := evalArgs()
		if err != nil {
			return Val{}, err
		}
		return Val{T: tInt, Term: app(x.Name, as[0].Term, as[1].Term)}, nil
	case "ite":
		cnd, err := e.evalBool(x.Args[0])
		if err != nil {
			return Val{}, err
		}
		a, err := e.eval(x.Args[1])
		if err != nil {
			return Val{}, err
		}
		b, err := e.eval(x.Args[2])
		if err != nil {
			return Val{}, err
		}
		if isFloat(a.T) || isFloat(b.T) {
			return Val{T: tFloat, Term: ite(cnd, c.toFloat(a, a.Term), c.toFloat(b, b.Term))}, nil
		}
		t := a.T
		if t == tUInt {
			t = b.T
		}
		return Val{T: t, Term: ite(cnd, c.termOf(a), c.termOf(b))}, nil
	case "nanos":
		// nanos(t): the instant t as nanoseconds since the zero time
		as, err := evalArgs()
		if err != nil {
			return Val{}, err
		}
		c.smt.declareFun("time_nanos", []string{c.sortOf(c.eng.timeType())}, "Int")
		return Val{T: tInt, Term: app("time_nanos", as[0].Term)}, nil
	case "unixNano":
		// unixNano(t): what t.UnixNano() returns in the engine's model of time.Time
		as, err := evalArgs()
		if err != nil {
			return Val{}, err
		}
		c.smt.declareFun("time_nanos", []string{c.sortOf(c.eng.timeType())}, "Int")
		c.smt.declareFun("time_unix_epoch", nil, "Int")
		return Val{T: types.Typ[types.Int64], Term: wrapTo(types.Typ[types.Int64], app("-", app("time_nanos", as[0].Term), "time_unix_epoch"))}, nil
	case "lastreceived":
		// lastreceived(ch): the value most recently received from ch by this function
		as, err := evalArgs()
		if err != nil {
			return Val{}, err
		}
		cht, ok := as[0].T.Underlying().(*types.Chan)
		if !ok {
			return Val{}, fmt.Errorf("lastreceived needs a channel")
		}
		lg := "lastreceived." + sortTag(c.sortOf(cht.Elem()))
		c.ghostSorts[lg] = "(Array Int " + c.sortOf(cht.Elem()) + ")"
		g, ok := e.st.ghost[lg]
		if !ok {
			g = c.ghostInit(lg)
		}
		return Val{T: cht.Elem(), Term: sel(g, as[0].Term)}, nil
	case "lastsent":
		// lastsent(ch): the value most recently sent on ch by this function
		as, err := evalArgs()
		if err != nil {
			return Val{}, err
		}
		cht, ok := as[0].T.Underlying().(*types.Chan)
		if !ok {
			return Val{}, fmt.Errorf("lastsent needs a channel")
		}
		lg := "lastsent." + sortTag(c.sortOf(cht.Elem()))
		c.ghostSorts[lg] = "(Array Int " + c.sortOf(cht.Elem()) + ")"
		g, ok := e.st.ghost[lg]
		if !ok {
			g = c.ghostInit(lg)
		}
		return Val{T: cht.Elem(), Term: sel(g, as[0].Term)}, nil
	case "calls":
		// calls(Name): how many calls named Name this function has executed so far
		nm, okn := callsArgName(x)
		if !okn {
			return Val{}, fmt.Errorf("calls(Name) or calls(recv.Name)")
		}
		c.ghostSorts["calls"] = "(Array Int Int)"
		g, ok := e.st.ghost["calls"]
		if !ok {
			g = c.ghostInit("calls")
		}
		return Val{T: tInt, Term: sel(g, fmt.Sprint(callNameID(nm)))}, nil
	case "lastresult":
		// lastresult(Name, k): result k of the most recent call named Name executed by this function
		if len(x.Args) != 2 || x.Args[1] == nil {
			return Val{}, fmt.Errorf("lastresult(Name, k)")
		}
		nm, okn := callsArgName(&CExpr{Args: x.Args[:1]})
		k, errk := strconv.Atoi(x.Args[1].Name)
		if !okn || errk != nil {
			return Val{}, fmt.Errorf("lastresult(Name, k) or lastresult(recv.Name, k)")
		}
		lg := fmt.Sprintf("lastres.%d.%d", callNameID(nm), k)
		g, ok := e.st.ghost[lg]
		if !ok || c.ghostTypes[lg] == nil {
			return Val{}, fmt.Errorf("lastresult(%s, %d): no such call has been executed on the way here", nm, k)
		}
		return Val{T: c.ghostTypes[lg], Term: g}, nil
	case "sent", "received":
		as, err := evalArgs()
		if err != nil {
			return Val{}, err
		}
		c.ghostSorts[x.Name] = "(Array Int Int)"
		g, ok := e.st.ghost[x.Name]
		if !ok {
			g = c.ghostInit(x.Name)
		}
		return Val{T: tInt, Term: sel(g, as[0].Term)}, nil
	case "visited":
		// visited(n): the ghost set of keys already produced by the n-th range statement
		if e.fr == nil {
			return Val{}, fmt.Errorf("visited() outside a function body")
		}
		n, _ := strconv.Atoi(x.Args[0].Name)
		rs := e.fr.rangesOf()
		if n < 1 || n > len(rs) {
			return Val{}, fmt.Errorf("visited(%d): function has %d range statements over maps", n, len(rs))
		}
		g := e.fr.iterGhost[rs[n-1]]
		t, ok := e.st.ghost[g]
		if !ok {
			return Val{}, fmt.Errorf("visited(%d): range not started", n)
		}
		mt := rs[n-1].X.Type().Underlying().(*types.Map)
		return Val{T: &specSet{mt.Key()}, Term: t}, nil
	}
	// predicates
	if p, ok := c.eng.lib.Preds[x.Name]; ok {
		as, err := evalArgs()
		if err != nil {
			return Val{}, err
		}
		if len(as) != len(p.Params) {
			return Val{}, fmt.Errorf("predicate %s: %d arguments, want %d", x.Name, len(as), len(p.Params))
		}
		n := e.sub()
		n.useLocals = false
		n.fr = nil
		n.results = nil
		n.names = map[string]Val{}
		pe := *e
		if p.PkgPath != "" {
			if sp := c.eng.pkgByPath[p.PkgPath]; sp != nil {
				n.pkg = sp.Pkg
				pe.pkg = sp.Pkg
			}
		}
		for i, prm := range p.Params {
			v := as[i]
			if t, err := pe.resolveType(prm.Type); err == nil {
				v.T = t
			}
			n.names[prm.Name] = v
		}
		n.fn = nil
		return n.eval(p.Body)
	}
	// uninterpreted spec functions
	if f, ok := c.eng.lib.Funcs[x.Name]; ok {
		as, err := evalArgs()
		if err != nil {
			return Val{}, err
		}
		rt, err := e.declareSpecFunc(f)
		if err != nil {
			return Val{}, err
		}
		var ts []string
		for i, a := range as {
			t := a.Term
			if i < len(f.Params) {
				if pt, err := e.resolveType(f.Params[i].Type); err == nil && isFloat(pt) {
					t = c.toFloat(a, t)
				}
			}
			ts = append(ts, t)
		}
		if len(ts) == 0 {
			return Val{T: rt, Term: "sf." + f.Name}, nil
		}
		return Val{T: rt, Term: app("sf."+f.Name, ts...)}, nil
	}
	return Val{}, fmt.Errorf("unknown function %s in contract", x.Name)
}

func (e *CEnv) declareSpecFunc(f *SpecFunc) (types.Type, error) {
	c := e.c
	pe := *e
	if f.PkgPath != "" {
		if sp := c.eng.pkgByPath[f.PkgPath]; sp != nil {
			pe.pkg = sp.Pkg
		}
	}
	rt, err := pe.resolveType(f.Ret)
	if err != nil {
		return nil, err
	}
	if c.specDeclared[f.Name] {
		return rt, nil
	}
	var ps []string
	for _, p := range f.Params {
		t, err := pe.resolveType(p.Type)
		if err != nil {
			return nil, err
		}
		ps = append(ps, c.sortOf(t))
	}
	c.specDeclared[f.Name] = true
	if len(ps) == 0 {
		c.smt.declare("sf."+f.Name, c.sortOf(rt))
	} else {
		c.smt.declareFun("sf."+f.Name, ps, c.sortOf(rt))
	}
	c.addAxiomsMentioning(f.Name)
	return rt, nil
}

// addAxiomsMentioning adds the library axioms that mention a spec function once it is used.
func (c *FnCtx) addAxiomsMentioning(fname string) {
	for _, ax := range c.eng.lib.Axioms {
		if ax.IsLemma || c.axiomsAdded[ax.Name] || c.excludedAxioms[ax.Name] {
			continue
		}
		if !exprMentions(ax.Body, fname) {
			continue
		}
		c.axiomsAdded[ax.Name] = true
		env := &CEnv{c: c, names: map[string]Val{}, st: newState(), old: nil}
		if ax.PkgPath != "" {
			if sp := c.eng.pkgByPath[ax.PkgPath]; sp != nil {
				env.pkg = sp.Pkg
			}
		}
		t, err := env.evalBool(ax.Body)
		if err != nil {
			c.unsupported("axiom " + ax.Name + ": " + err.Error())
			continue
		}
		c.smt.assume(t, "axiom "+ax.Name)
		c.assumedExternal["axiom "+ax.Name] = true
	}
}

func exprMentions(x *CExpr, name string) bool {
	if x == nil {
		return false
	}
	if x.Op == "call" && x.Name == name {
		return true
	}
	for _, a := range x.Args {
		if exprMentions(a, name) {
			return true
		}
	}
	for _, a := range x.Trig {
		if exprMentions(a, name) {
			return true
		}
	}
	return false
}

// modSet evaluates the modifies clauses of a contract into the set of modifiable locations.
func (e *CEnv) modSet(ct *Contract) (*ModSet, error) {
	ms := newModSet()
	for _, cl := range ct.clauses("modifies") {
		for _, loc := range cl.Locs {
			if err := e.addLoc(ms, loc); err != nil {
				return nil, fmt.Errorf("modifies %s: %v", loc, err)
			}
		}
	}
	// ghost counters that a postcondition talks about are (implicitly) modified: the callee's count is added to
	// the caller's, so the caller's old value must be forgotten before the postcondition is assumed
	for _, cl := range ct.clauses("ensures") {
		ghostMentions(cl.Expr, false, func(name string, arg *CExpr) {
			switch name {
			case "calls":
				if nm, okn := callsArgName(&CExpr{Op: "call", Name: "calls", Args: []*CExpr{arg}}); okn {
					id := callNameID(nm)
					for _, x := range ms.callNames {
						if x == id {
							return
						}
					}
					ms.callNames = append(ms.callNames, id)
				}
			case "sent", "received":
				e.c.ghostSorts[name] = "(Array Int Int)"
				ms.ghost[name] = true
			}
		})
	}
	return ms, nil
}

// ghostMentions calls f for every calls(X) / sent(ch) / received(ch) outside old().
func ghostMentions(x *CExpr, inOld bool, f func(name string, arg *CExpr)) {
	if x == nil {
		return
	}
	if x.Op == "old" {
		return
	}
	if x.Op == "call" && (x.Name == "calls" || x.Name == "sent" || x.Name == "received") && len(x.Args) == 1 {
		f(x.Name, x.Args[0])
	}
	for _, a := range x.Args {
		ghostMentions(a, inOld, f)
	}
}

func (e *CEnv) addLoc(ms *ModSet, loc *CExpr) error {
	c := e.c
	if loc.Op == "call" && loc.Name == "allElems" {
		// allElems(T): the elements of every slice of type T (whole element heap)
		if len(loc.Args) != 1 {
			return fmt.Errorf("allElems(SliceType)")
		}
		t, err := e.resolveType(&CType{Kind: "name", Name: strings.ReplaceAll(loc.Args[0].String(), " ", "")})
		if err != nil {
			return err
		}
		et := t
		if sl, ok := t.Underlying().(*types.Slice); ok {
			et = sl.Elem()
		}
		name, sort := c.elemHeap(et)
		c.heapSorts[name] = sort
		ms.whole[name] = true
		return nil
	}
	if loc.Op == "call" && loc.Name == "calls" {
		nm, okn := callsArgName(loc)
		if !okn {
			return fmt.Errorf("calls(Name) or calls(recv.Name)")
		}
		ms.callNames = append(ms.callNames, callNameID(nm))
		return nil
	}
	if loc.Op == "call" && loc.Name == "allMapsLike" {
		// allMapsLike(T.f): every map of the type of field f of struct T (whole map heaps)
		if len(loc.Args) != 1 || loc.Args[0].Op != "field" {
			return fmt.Errorf("allMapsLike(Type.field)")
		}
		tn := ""
		switch q := loc.Args[0].Args[0]; {
		case q.Op == "ident":
			tn = q.Name
		case q.Op == "field" && q.Args[0].Op == "ident":
			tn = q.Args[0].Name + "." + q.Name // pkg.Type
		default:
			return fmt.Errorf("allMapsLike(Type.field)")
		}
		st, err := e.resolveType(&CType{Kind: "name", Name: tn})
		if err != nil {
			return err
		}
		_, ft, _ := findField(st, loc.Args[0].Name)
		if ft == nil {
			return fmt.Errorf("no field %s", loc.Args[0].Name)
		}
		if _, ok := ft.Underlying().(*types.Map); !ok {
			return fmt.Errorf("allMapsLike needs a map-typed field")
		}
		dn, vn, ln, _, _ := c.mapHeaps(ft)
		ms.whole[dn], ms.whole[vn], ms.whole[ln] = true, true, true
		return nil
	}
	if loc.Op == "star" && loc.Name == "[]" && loc.Args[0].Op == "star" && loc.Args[0].Name == "[]" {
		// m[*][*]: the contents of every inner map of the map of maps m
		base, err := e.eval(loc.Args[0].Args[0])
		if err != nil {
			return err
		}
		mt, ok := base.T.Underlying().(*types.Map)
		if !ok {
			return fmt.Errorf("[*][*] needs a map of maps")
		}
		if _, ok := mt.Elem().Underlying().(*types.Map); !ok {
			return fmt.Errorf("[*][*] needs a map of maps")
		}
		odn, ovn, _, ks, _ := c.mapHeaps(base.T)
		od := c.heapGet(e.st, odn, c.heapSorts[odn])
		ov := c.heapGet(e.st, ovn, c.heapSorts[ovn])
		m := base.Term
		dn, vn, ln, _, _ := c.mapHeaps(mt.Elem())
		p := func(r string) string {
			return fmt.Sprintf("(exists ((k %s)) (and (select (select %s %s) k) (= (select (select %s %s) k) %s)))", ks, od, m, ov, m, r)
		}
		ms.addPred(dn, p)
		ms.addPred(vn, p)
		ms.addPred(ln, p)
		return nil
	}
	if loc.Op == "call" && loc.Name == "deref" {
		pv, err := e.eval(loc.Args[0])
		if err != nil {
			return err
		}
		pt, ok := pv.T.Underlying().(*types.Pointer)
		if !ok {
			return fmt.Errorf("deref of non-pointer")
		}
		if a := pv.Addr; a != nil {
			switch a.Kind {
			case akField:
				name, sort := c.fieldHeap(a.Struct, a.FieldIdx)
				c.heapSorts[name] = sort
				ms.addRef(name, a.Ref)
			case akCell:
				name, sort := c.cellHeap(a.RootT)
				c.heapSorts[name] = sort
				ms.addRef(name, a.Ref)
			case akElem:
				name, sort := c.elemHeap(a.RootT)
				c.heapSorts[name] = sort
				ms.addRef(name, a.Ref)
			default:
				return fmt.Errorf("deref of a local address")
			}
			return nil
		}
		p := c.termOf(pv)
		et := pt.Elem()
		cn, cs := c.cellHeap(et)
		c.heapSorts[cn] = cs
		ms.addPred(cn, func(r string) string { return and(app("(_ is pcell)", p), eq(r, app("pc_ref", p))) })
		en, es := c.elemHeap(et)
		c.heapSorts[en] = es
		ms.addPred(en, func(r string) string { return and(app("(_ is pelem)", p), eq(r, app("pe_base", p))) })
		for _, fc := range c.eng.fieldsOfType(et) {
			name, sort := c.fieldHeap(fc.st, fc.idx)
			c.heapSorts[name] = sort
			id := fmt.Sprint(c.fieldID(name))
			ms.addPred(name, func(r string) string {
				return and(app("(_ is pfield)", p), eq(app("pf_id", p), id), eq(r, app("pf_ref", p)))
			})
		}
		return nil
	}
	switch loc.Op {
	case "ident":
		if loc.Name == "everything" {
			ms.all = true
			return nil
		}
		if _, ok := c.ghostSorts[loc.Name]; ok {
			ms.ghost[loc.Name] = true
			return nil
		}
		if loc.Name == "sent" || loc.Name == "received" {
			c.ghostSorts[loc.Name] = "(Array Int Int)"
			ms.ghost[loc.Name] = true
			if loc.Name == "sent" {
				ms.ghost["lastsent.*"] = true
			}
			return nil
		}
		return fmt.Errorf("not a location")
	case "field":
		base, err := e.eval(loc.Args[0])
		if err != nil {
			return err
		}
		stT, ok := ptrToStruct(base.T)
		if !ok {
			return fmt.Errorf("%s is not a pointer to struct", loc.Args[0])
		}
		idx, _, _ := findField(stT, loc.Name)
		if idx < 0 {
			return fmt.Errorf("no field %s", loc.Name)
		}
		name, sort := c.fieldHeap(stT, idx)
		c.heapSorts[name] = sort
		ms.addRef(name, c.termOf(base))
		return nil
	case "star":
		base, err := e.eval(loc.Args[0])
		if err != nil {
			return err
		}
		if loc.Name == "." {
			stT, ok := ptrToStruct(base.T)
			if !ok {
				return fmt.Errorf("%s is not a pointer to struct", loc.Args[0])
			}
			s := stT.Underlying().(*types.Struct)
			for i := 0; i < s.NumFields(); i++ {
				name, sort := c.fieldHeap(stT, i)
				c.heapSorts[name] = sort
				ms.addRef(name, c.termOf(base))
			}
			return nil
		}
		switch u := base.T.Underlying().(type) {
		case *types.Slice:
			name, sort := c.elemHeap(u.Elem())
			c.heapSorts[name] = sort
			ms.addRef(name, app("sl_base", base.Term))
			return nil
		case *types.Map:
			dn, vn, ln, _, _ := c.mapHeaps(base.T)
			ms.addRef(dn, base.Term)
			ms.addRef(vn, base.Term)
			ms.addRef(ln, base.Term)
			return nil
		}
		return fmt.Errorf("[*] needs a slice or map")
	}
	return fmt.Errorf("unsupported location form")
}

// callsArgName: the counter name in calls(Name) / calls(recv.Name).
func callsArgName(x *CExpr) (string, bool) {
	if len(x.Args) != 1 || x.Args[0] == nil {
		return "", false
	}
	a := x.Args[0]
	switch {
	case a.Op == "ident":
		return a.Name, true
	case a.Op == "field" && len(a.Args) == 1 && a.Args[0].Op == "ident":
		return a.Args[0].Name + "." + a.Name, true
	}
	return "", false
}
