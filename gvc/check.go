package main

// gvc check: decide one property = discharge the obligations of the functions it depends on,
// with vacuity guards, known findings, replay and evidence.

import (
	"crypto/sha1"
	"encoding/json"
	"flag"
	"fmt"
	"os"
	"path/filepath"
	"sort"
	"strconv"
	"strings"
	"time"
)

type PropFunc struct {
	Key    string   `json:"key"`              // e.g. "lexer.lexKeySep"
	Kinds  []string `json:"kinds,omitempty"`  // obligation kinds that count for this property (default: all)
	Labels []string `json:"labels,omitempty"` // for post obligations: only clauses with these labels (default: all)
	Include []string `json:"include,omitempty"` // if set: only obligations whose name contains one of these substrings
	Exclude []string `json:"exclude,omitempty"` // obligations whose name contains one of these substrings belong to another property
	Note   string   `json:"note,omitempty"`
}

type PropSpec struct {
	ID          string     `json:"id"`
	Packages    []string   `json:"packages"`
	Functions   []PropFunc `json:"functions"`
	Lemmas      []string   `json:"lemmas,omitempty"`
	Include     []string   `json:"include,omitempty"` // property-wide: only obligations whose name contains one of these (bind/engine always count)
	Exclude     []string   `json:"exclude,omitempty"` // property-wide: obligations that belong to another property's claim
	Assumptions []string   `json:"assumptions"`
	NotDecided  []string   `json:"not_decided,omitempty"`
	Bounded     []string   `json:"bounded,omitempty"`
	MinObl      int        `json:"min_obligations"` // vacuity floor, from the ledger
}

type KnownFinding struct {
	Property   string `json:"property"`
	Obligation string `json:"obligation"` // obligation name (prefix match up to '#')
	What       string `json:"what"`
	Witness    string `json:"witness,omitempty"`
	Status     string `json:"status"` // "known" | "fixed"
	Commit     string `json:"commit,omitempty"`
}

type ReplayFile struct {
	Property   string            `json:"property"`
	Obligation string            `json:"obligation"`
	Kind       string            `json:"kind"`
	Function   string            `json:"function"`
	Position   string            `json:"position"`
	Status     string            `json:"solver_status"`
	Solvers    map[string]string `json:"solvers"`
	Model      map[string]string `json:"model,omitempty"`
	SolverOut  string            `json:"solver_output"`
	Replay     *ReplayResult     `json:"replay,omitempty"`
	Query      string            `json:"query_file,omitempty"`
	Note       string            `json:"note"`
}

func loadProp(id string) (*PropSpec, error) {
	data, err := os.ReadFile(filepath.Join(verifRoot(), "props", id+".json"))
	if err != nil {
		return nil, err
	}
	var p PropSpec
	if err := json.Unmarshal(data, &p); err != nil {
		return nil, fmt.Errorf("props/%s.json: %v", id, err)
	}
	return &p, nil
}

func loadKnown() []KnownFinding {
	data, err := os.ReadFile(filepath.Join(verifRoot(), "known_findings.json"))
	if err != nil {
		return nil
	}
	var k []KnownFinding
	if err := json.Unmarshal(data, &k); err != nil {
		fmt.Fprintln(os.Stderr, "known_findings.json:", err)
		os.Exit(2)
	}
	return k
}

func oblBase(name string) string {
	if i := strings.LastIndex(name, "#"); i >= 0 {
		return name[:i]
	}
	return name
}

func cmdCheck(args []string) {
	fs := flag.NewFlagSet("check", flag.ExitOnError)
	repo := fs.String("repo", "/repo", "repository")
	prop := fs.String("property", "", "property id")
	tier := fs.String("tier", "quick", "quick|thorough")
	verbose := fs.Bool("v", false, "verbose")
	noEvidence := fs.Bool("no-evidence", false, "do not write the evidence file")
	list := fs.Bool("list", false, "print the names of the obligations that count for the property")
	fs.Parse(args)
	if *prop == "" {
		usage()
	}
	t0 := time.Now()
	seed, _ := strconv.Atoi(os.Getenv("VERIF_SEED"))
	ps, err := loadProp(*prop)
	if err != nil {
		fmt.Fprintln(os.Stderr, err)
		os.Exit(2)
	}
	timeout := 20 * time.Second
	agree := 1
	if *tier == "thorough" {
		timeout = 60 * time.Second
		agree = 2
	}
	res := runProperty(ps, *repo, nil, RunOpts{Timeout: timeout, Agree: agree, Verbose: *verbose})
	if *list {
		for _, o := range res.Counted {
			fmt.Println("OBL", o.Kind, o.Name)
		}
	}
	exit := reportProperty(ps, res, *tier, seed, t0, !*noEvidence, *repo)
	if *tier == "thorough" && exit == 0 && os.Getenv("GVC_SKIP_SELFTEST") == "" {
		// must-fail corpus: every deliberate property-breaking edit must make an obligation fail
		if n, bad := runSelftest(ps.ID, *repo, false); len(bad) > 0 {
			for _, b := range bad {
				fmt.Printf("SELFTEST-MISS property=%s mutant=%s (the check does not notice this deliberate break)\n", ps.ID, b)
			}
			fmt.Printf("selftest: %d mutants, %d missed\n", n, len(bad))
			exit = 2
		} else {
			fmt.Printf("selftest: %d mutants, all detected; negative controls quiet\n", n)
		}
	}
	os.Exit(exit)
}

type PropResult struct {
	Reports   []*FnReport
	Counted   []*Obligation // obligations that count for the property
	Covers    []*Obligation
	Missing   []string // functions that could not be found
	LoadError string
	Workdir   string
	Lemmas    []*Obligation
}

func runProperty(ps *PropSpec, repo string, overlay map[string][]byte, opts RunOpts) *PropResult {
	res := &PropResult{}
	e, err := loadEngine(repo, ps.Packages, overlay, []string{verifRoot() + "/specs"})
	if err != nil {
		res.LoadError = err.Error()
		return res
	}
	wd := workdir()
	res.Workdir = wd
	opts.Workdir = wd
	for _, k := range e.unboundContracts() {
		res.Missing = append(res.Missing, "contract "+k+" (no function of this name in the loaded package)")
	}
	var all []*Obligation
	for _, pf := range ps.Functions {
		fn := e.findFunction(pf.Key)
		if fn == nil {
			res.Missing = append(res.Missing, pf.Key)
			continue
		}
		rep := e.verifyFunction(fn)
		res.Reports = append(res.Reports, rep)
		for _, o := range rep.Obligations {
			if o.Cover {
				res.Covers = append(res.Covers, o)
				all = append(all, o)
				continue
			}
			if !kindCounts(pf, o) || !nameFilter(ps.Include, ps.Exclude, o) {
				continue
			}
			res.Counted = append(res.Counted, o)
			all = append(all, o)
		}
	}
	for _, ln := range ps.Lemmas {
		o := e.lemmaObligation(ln)
		res.Lemmas = append(res.Lemmas, o)
		res.Counted = append(res.Counted, o)
		all = append(all, o)
	}
	dischargeAll(all, opts)
	return res
}

func nameFilter(include, exclude []string, o *Obligation) bool {
	if o.Kind == "bind" || o.Kind == "engine" {
		return true
	}
	for _, x := range exclude {
		if strings.Contains(o.Name, x) {
			return false
		}
	}
	if len(include) == 0 {
		return true
	}
	for _, x := range include {
		if strings.Contains(o.Name, x) {
			return true
		}
	}
	return false
}

func kindCounts(pf PropFunc, o *Obligation) bool {
	if !nameFilter(pf.Include, pf.Exclude, o) {
		return false
	}
	if len(pf.Kinds) > 0 && !contains(pf.Kinds, o.Kind) && o.Kind != "bind" && o.Kind != "engine" {
		return false
	}
	if len(pf.Labels) > 0 && o.Kind == "post" {
		ok := false
		for _, l := range pf.Labels {
			if o.Label == l || (l == "" && o.Label == "") {
				ok = true
			}
		}
		return ok
	}
	return true
}

// reportProperty prints findings / violations, writes replay files and evidence; returns the
// exit code.
func reportProperty(ps *PropSpec, res *PropResult, tier string, seed int, t0 time.Time, writeEvidence bool, repo string) int {
	id := ps.ID
	outDir := filepath.Join(verifRoot(), "replay", "out", id)
	os.MkdirAll(outDir, 0o755)
	violations := 0
	violation := func(rf *ReplayFile, nofail bool) {
		h := sha1.Sum([]byte(rf.Obligation))
		path := filepath.Join(outDir, fmt.Sprintf("%x.json", h[:6]))
		data, _ := json.MarshalIndent(rf, "", " ")
		os.WriteFile(path, data, 0o644)
		suffix := ""
		if nofail {
			suffix = " no-failing-input-found"
		}
		fmt.Printf("VIOLATION property=%s replay=%s obligation=%q%s\n", id, path, rf.Obligation, suffix)
		violations++
	}
	if res.LoadError != "" {
		violation(&ReplayFile{Property: id, Obligation: "load/" + id, Kind: "load", Status: "load-error", SolverOut: res.LoadError,
			Note: "the repository (or its contract files) could not be loaded with the verif tag: the property cannot be decided"}, true)
		return 1
	}
	for _, m := range res.Missing {
		violation(&ReplayFile{Property: id, Obligation: "bind/function " + m, Kind: "bind", Status: "missing",
			Note: "a function under contract for this property no longer exists under this name: its obligations cannot be generated, the property is undecided"}, true)
	}
	known := loadKnown()
	knownHit := map[int]bool{}
	total, discharged := 0, 0
	byKind := map[string]int{}
	bySolver := map[string]int{}
	var solverTotal, solverMax float64
	var slowest string
	var samples []map[string]string
	knownOb := 0
	retried := 0
	var slow []map[string]interface{}
	var timings []string
	for _, o := range res.Counted {
		timings = append(timings, fmt.Sprintf("%.2f\t%s\t%s\t%d\t%s", o.Result.Seconds, o.Result.Status, o.Result.Solver, o.Result.Retried, o.Name))
		// known finding?
		isKnown := false
		if !o.ok() {
			for i, k := range known {
				if k.Property == id && k.Status == "known" && oblBase(o.Name) == oblBase(k.Obligation) {
					if !knownHit[i] {
						fmt.Printf("KNOWN-FINDING: property=%s %s — %s\n", id, k.Obligation, k.What)
					}
					knownHit[i] = true
					isKnown = true
				}
			}
		}
		if isKnown {
			knownOb++
			continue
		}
		total++
		byKind[o.Kind]++
		if o.ok() {
			discharged++
			bySolver[o.Result.Solver]++
			solverTotal += o.Result.Seconds
			if o.Result.Seconds > solverMax {
				solverMax = o.Result.Seconds
				slowest = o.Name
			}
			if o.Result.Retried > 0 {
				retried++
			}
			if o.Result.Seconds > 5 || o.Result.Retried > 0 {
				slow = append(slow, map[string]interface{}{"obligation": o.Name, "solver": o.Result.Solver, "seconds": round3(o.Result.Seconds), "retry_pass": o.Result.Retried})
			}
			if len(samples) < 6 && (len(samples) == 0 || o.Kind != samples[len(samples)-1]["kind"]) {
				samples = append(samples, map[string]string{"obligation": o.Name, "kind": o.Kind, "at": o.Pos, "result": "unsat (" + o.Result.Solver + ")"})
			}
			continue
		}
		rf := &ReplayFile{Property: id, Obligation: o.Name, Kind: o.Kind, Function: o.Fn, Position: o.Pos, Status: o.Result.Status,
			Solvers: o.Result.All, SolverOut: firstLines(o.Result.Output, 60)}
		nofail := true
		if o.Result.Status == "sat" || o.Relaxed || (o.Ctx != nil && o.Ctx.fn != nil && hasScenarioDriver(o)) {
			rf.Model = parseValues(o.Result.Output)
			rr := tryReplay(o, rf.Model, repo, res.Workdir)
			rf.Replay = rr
			if rr != nil && rr.Reproduced {
				nofail = false
			}
		}
		switch o.Result.Status {
		case "sat":
			rf.Note = "the solver found a state satisfying the function's precondition in which this obligation is false"
		case "bind-error":
			rf.Note = "a contract clause no longer binds to the code (renamed variable, field or function): the property cannot be decided"
		case "engine-error":
			rf.Note = "the verifier failed on this function; nothing is claimed for it"
		default:
			rf.Note = "no solver could discharge this obligation within the time limit (it is discharged on the unchanged tree)"
		}
		// keep the query next to the replay file
		h := sha1.Sum([]byte(o.Name))
		qf := filepath.Join(outDir, fmt.Sprintf("%x.smt2", h[:6]))
		if o.Ctx != nil && o.Result.Status != "bind-error" && o.Result.Status != "engine-error" {
			os.WriteFile(qf, []byte(o.query(true)), 0o644)
			rf.Query = qf
		}
		violation(rf, nofail)
	}
	// vacuity
	coverBad := 0
	for _, o := range res.Covers {
		if !o.ok() {
			coverBad++
			violation(&ReplayFile{Property: id, Obligation: o.Name, Kind: "cover", Function: o.Fn, Status: o.Result.Status, Solvers: o.Result.All,
				Note: "vacuity guard: the precondition (or the path to the function's exit) is unsatisfiable, so every proof about this function would be vacuous"}, true)
		}
	}
	if total+knownOb < ps.MinObl {
		violation(&ReplayFile{Property: id, Obligation: "vacuity/obligation count", Kind: "vacuity", Status: fmt.Sprintf("%d < %d", total+knownOb, ps.MinObl),
			Note: "fewer obligations were generated than the recorded floor: contracts or functions have disappeared"}, true)
	}
	for i, k := range known {
		if k.Property == id && k.Status == "known" && !knownHit[i] {
			fmt.Printf("note: known finding %q no longer fails (consider marking it fixed)\n", k.Obligation)
		}
	}
	// evidence
	var fns, unsupported []string
	assumed := map[string]bool{}
	trusted := []string{}
	for _, r := range res.Reports {
		fns = append(fns, r.Fn)
		for _, a := range r.Assumed {
			assumed[a] = true
		}
		for _, u := range r.Unsupported {
			unsupported = append(unsupported, r.Fn+": "+u)
		}
		if r.Trusted {
			trusted = append(trusted, r.Fn)
		}
	}
	sort.Strings(fns)
	assumptions := append([]string{}, ps.Assumptions...)
	for _, a := range sortedKeys(assumed) {
		assumptions = append(assumptions, "dependency: "+a)
	}
	for _, u := range unsupported {
		assumptions = append(assumptions, "over-approximated (havoc): "+u)
	}
	for _, t := range trusted {
		assumptions = append(assumptions, "trusted contract (not verified): "+t)
	}
	for _, n := range ps.NotDecided {
		assumptions = append(assumptions, "NOT DECIDED by this check: "+n)
	}
	ev := map[string]interface{}{
		"property_id": id, "tier": tier, "seed": seed, "level": "proof",
		"coverage": map[string]interface{}{
			"obligations": total, "discharged": discharged,
			"checker_cmd":  fmt.Sprintf("./check %s %s  (gvc: go/ssa VC generator; z3 4.8.12, z3 5.1.0, cvc5 1.0.3 raced per obligation)", id, tier),
			"trusted_base": []string{"Go compiler and runtime", "golang.org/x/tools v0.29.0 go/types + go/ssa as the semantics of the source", "gvc (this verifier)", "SMT solvers z3 4.8.12 / z3 5.1.0 / cvc5 1.0.3", "soundness of the loop, modular-call and function-type-contract rules"},
			"functions_under_contract": fns, "obligations_by_kind": byKind, "discharged_by_solver": bySolver,
			"solver_seconds_total": round3(solverTotal), "solver_seconds_max": round3(solverMax), "slowest_obligation": slowest,
			"covers_checked": len(res.Covers), "covers_vacuous": coverBad, "known_finding_obligations": knownOb,
			"samples": samples, "bounded_standins": ps.Bounded, "min_obligations_floor": ps.MinObl, "lemmas": len(res.Lemmas),
			"decided_in_retry_pass": retried, "slow_obligations": slow,
		},
		"assumptions": assumptions, "wall_s": round3(time.Since(t0).Seconds()), "violations": violations,
	}
	os.WriteFile(filepath.Join(outDir, "timings.tsv"), []byte(strings.Join(timings, "\n")+"\n"), 0o644)
	if writeEvidence {
		os.MkdirAll(filepath.Join(verifRoot(), "evidence"), 0o755)
		data, _ := json.MarshalIndent(ev, "", " ")
		os.WriteFile(filepath.Join(verifRoot(), "evidence", id+".json"), data, 0o644)
	}
	fmt.Printf("property %s (%s): %d functions, %d obligations, %d discharged, %d violations, %d known-finding obligations, %.1fs\n",
		id, tier, len(res.Reports), total, discharged, violations, knownOb, time.Since(t0).Seconds())
	if res.Workdir != "" {
		os.RemoveAll(res.Workdir)
	}
	if violations > 0 {
		return 1
	}
	return 0
}

func round3(f float64) float64 { return float64(int(f*1000+0.5)) / 1000 }

func (e *Engine) lemmaObligation(name string) *Obligation {
	for _, ax := range e.lib.Axioms {
		if ax.IsLemma && ax.Name == name {
			c := e.newFnCtx(nil, nil)
			if ax.Floats == "ieee" {
				c.floatsIEEE = true
			}
			// a lemma X_base / X_step is the induction base / step of the axiom X: X itself is not available to
			// its own proof (nor is anything listed after "without=")
			c.excludedAxioms = map[string]bool{}
			for _, suf := range []string{"_base", "_step"} {
				if strings.HasSuffix(name, suf) {
					c.excludedAxioms[strings.TrimSuffix(name, suf)] = true
				}
			}
			for _, u := range ax.Uses {
				c.excludedAxioms[u] = true
			}
			env := &CEnv{c: c, names: map[string]Val{}, st: newState()}
			t, err := env.evalBool(ax.Body)
			o := &Obligation{Name: "lemma/" + name + "#1", Kind: "lemma", Fn: "lemma", Reach: "true", Ctx: c, Text: ax.Text}
			if err != nil {
				o.Goal = "false"
				o.Result = SolverResult{Status: "bind-error", Output: err.Error()}
				return o
			}
			o.Goal = t
			o.UpTo = len(c.smt.items)
			return o
		}
	}
	c := e.newFnCtx(nil, nil)
	return &Obligation{Name: "lemma/" + name + "#1", Kind: "bind", Fn: "lemma", Reach: "true", Goal: "false", Ctx: c,
		Result: SolverResult{Status: "bind-error", Output: "lemma not found"}}
}
