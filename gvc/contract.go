package main

// Contract files: structured //@ comments in guarded, comment-only Go files inside /repo
// (zz_verif_contracts.go, //go:build verif) and spec libraries (/verif/specs/*.gvs, same syntax
// without the comment prefix).
//
//   //@ pred LexInv(l *Lexer) := e
//   //@ func lexEventBody
//   //@   floats ieee
//   //@   requires e
//   //@   ensures e
//   //@   modifies loc, loc
//   //@   loop 1 invariant e
//   //@   loop 1 modifies loc
//   //@   may_panic
//   //@   inline            (never use the contract at call sites; always inline the body)
//   //@   trusted           (contract assumed, body not verified; listed in evidence)
//   //@ specfunc norm(s Str, n int) Str
//   //@ axiom name := e
//   //@ lemma name := e
//
// A clause continues on following lines that are indented deeper than the clause keyword.

import (
	"fmt"
	"os"
	"path/filepath"
	"strconv"
	"strings"
)

type Clause struct {
	Kind  string // requires, ensures, modifies, invariant, loopmodifies, assert, decreases
	Loop  int    // loop ordinal (1-based) for loop clauses
	Text  string
	Expr  *CExpr
	Locs  []*CExpr // for modifies
	File  string
	Line  int
	Label string // optional label: `ensures [W1] e`
	Assumed bool // callsite ... assumes: assumed instead of checked
}

type Contract struct {
	Key        string // function key relative to package, e.g. "(*Lexer).next", "lexUint$1"
	PkgPath    string
	Clauses    []*Clause
	Floats     string // "", "real", "ieee"
	MayPanic   bool
	Inline     bool
	Trusted    bool
	Pure       bool
	File       string
	Line       int
	Props      []string // properties this function's obligations count for ("" = all that name it)
	NoSafety   bool
	ParamNames []string // functype: names of the positional parameters
	IsFuncType bool
	Sig        string // functype over an unnamed signature: its Go type expression
	Preserves  []string
	Iterator   bool // e.g. Counters.Each: calls its function argument once per entry of the receiver
}

// hasCallSpec: the contract says something a static caller can use (otherwise the body is
// inlined at static call sites and no frame is claimed).
func (c *Contract) hasCallSpec() bool {
	for _, cl := range c.Clauses {
		switch cl.Kind {
		case "requires", "ensures", "modifies":
			return true
		}
	}
	return false
}

func (c *Contract) clauses(kind string) []*Clause {
	var out []*Clause
	for _, cl := range c.Clauses {
		if cl.Kind == kind {
			out = append(out, cl)
		}
	}
	return out
}

func (c *Contract) loopClauses(kind string, loop int) []*Clause {
	var out []*Clause
	for _, cl := range c.Clauses {
		if cl.Kind == kind && cl.Loop == loop {
			out = append(out, cl)
		}
	}
	return out
}

type Param struct {
	Name string
	Type *CType
}

type PredDef struct {
	Name    string
	PkgPath string
	Params  []Param
	Body    *CExpr
	File    string
	Line    int
}

type SpecFunc struct {
	Name    string
	PkgPath string
	Params  []Param
	Ret     *CType
}

type Axiom struct {
	Name    string
	PkgPath string
	Body    *CExpr
	IsLemma bool
	Text    string
	File    string
	Line    int
	Floats  string
	Uses    []string // lemma: axioms (by name) that are NOT available to its proof, besides the one it is the base/step of
}

type SpecLib struct {
	Contracts map[string]*Contract // pkgpath + "::" + key
	FuncTypes map[string]*Contract // pkgpath + "::" + type name
	Preds     map[string]*PredDef  // by name (package-qualified lookups fall back to bare)
	Funcs     map[string]*SpecFunc
	Axioms    []*Axiom
	Scans     []string // assume/trusted/axiom markers for the evidence
}

func newSpecLib() *SpecLib {
	return &SpecLib{Contracts: map[string]*Contract{}, FuncTypes: map[string]*Contract{}, Preds: map[string]*PredDef{}, Funcs: map[string]*SpecFunc{}}
}

type rawLine struct {
	text   string
	indent int
	line   int
}

// loadContractFile parses one file. pkgPath is the import path of the package the file
// belongs to ("" for spec libraries outside /repo).
func (lib *SpecLib) loadContractFile(path, pkgPath string) error {
	data, err := os.ReadFile(path)
	if err != nil {
		return err
	}
	isGo := strings.HasSuffix(path, ".go")
	var lines []rawLine
	for i, ln := range strings.Split(string(data), "\n") {
		t := ln
		if isGo {
			tt := strings.TrimLeft(t, " \t")
			if !strings.HasPrefix(tt, "//@") {
				continue
			}
			t = tt[3:]
		} else {
			if strings.HasPrefix(strings.TrimSpace(t), "#") {
				continue
			}
		}
		// strip trailing comment  " // ..."
		if j := strings.Index(t, " // "); j >= 0 {
			t = t[:j]
		}
		if strings.TrimSpace(t) == "" {
			continue
		}
		ind := len(t) - len(strings.TrimLeft(t, " \t"))
		lines = append(lines, rawLine{strings.TrimSpace(t), ind, i + 1})
	}
	// group continuation lines
	type item struct {
		text   string
		indent int
		line   int
	}
	var items []item
	for _, l := range lines {
		if n := len(items); n > 0 && l.indent > items[n-1].indent && !startsWithKeyword(l.text) {
			items[n-1].text += " " + l.text
			continue
		}
		items = append(items, item{l.text, l.indent, l.line})
	}
	var cur *Contract
	for _, it := range items {
		kw, rest := splitKw(it.text)
		fail := func(err error) error {
			return fmt.Errorf("%s:%d: %v (in %q)", path, it.line, err, it.text)
		}
		switch kw {
		case "package":
			// spec libraries: contracts for the named (dependency) package follow
			pkgPath = strings.TrimSpace(rest)
			cur = nil
		case "func":
			key := strings.TrimSpace(rest)
			cur = &Contract{Key: key, PkgPath: pkgPath, File: path, Line: it.line}
			k := pkgPath + "::" + key
			if _, dup := lib.Contracts[k]; dup {
				return fail(fmt.Errorf("duplicate contract for %s", key))
			}
			lib.Contracts[k] = cur
		case "functype":
			sig := ""
			if i := strings.Index(rest, " sig "); i >= 0 {
				sig = strings.TrimSpace(rest[i+5:])
				rest = rest[:i]
			}
			name, params, _, err := parseSigNames(strings.TrimSpace(rest))
			if err != nil {
				return fail(err)
			}
			cur = &Contract{Key: "functype:" + name, PkgPath: pkgPath, File: path, Line: it.line, ParamNames: params, IsFuncType: true, Sig: sig}
			lib.FuncTypes[pkgPath+"::"+name] = cur
		case "pred":
			cur = nil
			i := strings.Index(rest, ":=")
			if i < 0 {
				return fail(fmt.Errorf("pred needs :="))
			}
			name, params, _, err := parseSig(strings.TrimSpace(rest[:i]))
			if err != nil {
				return fail(err)
			}
			body, err := parseCExpr(rest[i+2:])
			if err != nil {
				return fail(err)
			}
			lib.Preds[name] = &PredDef{Name: name, PkgPath: pkgPath, Params: params, Body: body, File: path, Line: it.line}
		case "specfunc":
			cur = nil
			name, params, ret, err := parseSig(strings.TrimSpace(rest))
			if err != nil {
				return fail(err)
			}
			lib.Funcs[name] = &SpecFunc{Name: name, PkgPath: pkgPath, Params: params, Ret: ret}
		case "axiom", "lemma":
			cur = nil
			i := strings.Index(rest, ":=")
			if i < 0 {
				return fail(fmt.Errorf("%s needs :=", kw))
			}
			head := strings.Fields(strings.TrimSpace(rest[:i]))
			ax := &Axiom{Name: head[0], PkgPath: pkgPath, IsLemma: kw == "lemma", Text: strings.TrimSpace(rest[i+2:]), File: path, Line: it.line}
			for _, h := range head[1:] {
				switch {
				case h == "ieee" || h == "real":
					ax.Floats = h
				case strings.HasPrefix(h, "without="):
					ax.Uses = strings.Split(h[8:], ",")
				}
			}
			body, err := parseCExpr(rest[i+2:])
			if err != nil {
				return fail(err)
			}
			ax.Body = body
			lib.Axioms = append(lib.Axioms, ax)
			if kw == "axiom" {
				lib.Scans = append(lib.Scans, fmt.Sprintf("axiom %s (%s:%d)", ax.Name, filepath.Base(path), it.line))
			}
		default:
			if cur == nil {
				return fail(fmt.Errorf("clause %q outside a func block", kw))
			}
			cl := &Clause{Kind: kw, Text: strings.TrimSpace(rest), File: path, Line: it.line}
			switch kw {
			case "floats":
				cur.Floats = strings.TrimSpace(rest)
				continue
			case "may_panic":
				cur.MayPanic = true
				continue
			case "inline":
				cur.Inline = true
				continue
			case "pure":
				cur.Pure = true
				continue
			case "iterator":
				cur.Iterator = true
				continue
			case "iter":
				// iter invariant E   (on a closure passed to an iterator function)
				f := strings.Fields(rest)
				cl.Kind = "iterinv"
				if len(f) >= 3 && f[0] == "inner" && f[1] == "invariant" {
					cl.Kind = "iterinner"
					rest = strings.TrimSpace(strings.TrimPrefix(strings.TrimSpace(rest), "inner"))
				} else if len(f) < 2 || f[0] != "invariant" {
					return fail(fmt.Errorf("iter [inner] invariant <expr>"))
				}
				cl.Text = strings.TrimSpace(strings.TrimPrefix(strings.TrimSpace(rest), "invariant"))
				e, err := parseCExpr(cl.Text)
				if err != nil {
					return fail(err)
				}
				cl.Expr = e
				cur.Clauses = append(cur.Clauses, cl)
				continue
			case "nosafety":
				cur.NoSafety = true
				continue
			case "trusted":
				cur.Trusted = true
				lib.Scans = append(lib.Scans, fmt.Sprintf("trusted contract %s (%s:%d)", cur.Key, filepath.Base(path), it.line))
				continue
			case "property":
				cur.Props = append(cur.Props, strings.Fields(rest)...)
				continue
			case "loop":
				f := strings.Fields(rest)
				if len(f) < 3 {
					return fail(fmt.Errorf("loop clause: loop <n> invariant|modifies|decreases e"))
				}
				n, err := strconv.Atoi(f[0])
				if err != nil {
					return fail(err)
				}
				cl.Loop = n
				sub := f[1]
				body := strings.TrimSpace(strings.TrimPrefix(strings.TrimSpace(strings.TrimPrefix(strings.TrimSpace(rest), f[0])), sub))
				cl.Text = body
				switch sub {
				case "invariant":
					cl.Kind = "invariant"
				case "modifies":
					cl.Kind = "loopmodifies"
				case "decreases":
					cl.Kind = "decreases"
				case "step":
					// two-state clause: holds between the head of an arbitrary iteration (prev(e)) and its end
					cl.Kind = "step"
				default:
					return fail(fmt.Errorf("unknown loop clause %q", sub))
				}
			case "callsite":
				// callsite <callee name> requires <expr over the callee's parameter names>
				f := strings.Fields(rest)
				if len(f) < 3 || (f[1] != "requires" && f[1] != "assumes" && f[1] != "yields") {
					return fail(fmt.Errorf("callsite <name> requires|assumes|yields <expr>"))
				}
				cl.Kind = "callsite"
				if f[1] == "yields" {
					// callsite <name> yields <expr over result>: what a call into a dependency returns (assumed after the
					// call, never checked, listed as an assumption)
					cl.Kind = "callyields"
				}
				cl.Label = f[0]
				cl.Text = strings.TrimSpace(strings.TrimPrefix(strings.TrimSpace(strings.TrimPrefix(strings.TrimSpace(rest), f[0])), f[1]))
				e, err := parseCExpr(cl.Text)
				if err != nil {
					return fail(err)
				}
				cl.Expr = e
				if f[1] == "yields" {
					cl.Assumed = true
					lib.Scans = append(lib.Scans, fmt.Sprintf("callsite yields (what a dependency returns, not checked) in %s (%s:%d): %s %s", cur.Key, filepath.Base(path), it.line, cl.Label, cl.Text))
				}
				if f[1] == "assumes" {
					// callsite <name> assumes <expr>: a fact about the state at that call that comes from a dependency
					// (what a decoder produced, say); assumed, never checked, and listed as such
					cl.Assumed = true
					lib.Scans = append(lib.Scans, fmt.Sprintf("callsite assumes (dependency behaviour, not checked) in %s (%s:%d): %s %s", cur.Key, filepath.Base(path), it.line, cl.Label, cl.Text))
				}
				cur.Clauses = append(cur.Clauses, cl)
				continue
			case "sendsite":
				// sendsite requires <expr over ch, val>: obligation at every channel send of the function
				f := strings.Fields(rest)
				if len(f) < 2 || f[0] != "requires" {
					return fail(fmt.Errorf("sendsite requires <expr>"))
				}
				cl.Kind = "sendsite"
				cl.Text = strings.TrimSpace(strings.TrimPrefix(strings.TrimSpace(rest), "requires"))
				// optional [ElemType]: only sends on channels whose element type is (ends with) ElemType
				if strings.HasPrefix(cl.Text, "[") {
					if j := strings.Index(cl.Text, "]"); j > 0 {
						cl.Label = cl.Text[1:j]
						cl.Text = strings.TrimSpace(cl.Text[j+1:])
					}
				}
				e, err := parseCExpr(cl.Text)
				if err != nil {
					return fail(err)
				}
				cl.Expr = e
				cur.Clauses = append(cur.Clauses, cl)
				continue
			case "recvsite":
				// recvsite assumes [ElemType] <expr over ch, val>: the message invariant of a channel, assumed for every value
				// received from a channel of that element type (its counterpart is a `sendsite requires` at the senders)
				f := strings.Fields(rest)
				if len(f) < 2 || f[0] != "assumes" {
					return fail(fmt.Errorf("recvsite assumes <expr>"))
				}
				cl.Kind = "recvsite"
				cl.Text = strings.TrimSpace(strings.TrimPrefix(strings.TrimSpace(rest), "assumes"))
				if strings.HasPrefix(cl.Text, "[") {
					if j := strings.Index(cl.Text, "]"); j > 0 {
						cl.Label = cl.Text[1:j]
						cl.Text = strings.TrimSpace(cl.Text[j+1:])
					}
				}
				e, err := parseCExpr(cl.Text)
				if err != nil {
					return fail(err)
				}
				cl.Expr = e
				cur.Clauses = append(cur.Clauses, cl)
				lib.Scans = append(lib.Scans, fmt.Sprintf("recvsite assumes (channel message invariant) in %s (%s:%d): %s", cur.Key, filepath.Base(path), it.line, cl.Text))
				continue
			case "preserves":
				// preserves T1, T2: with `modifies everything`, field heaps of these struct types keep their values
				for _, part := range splitTopLevel(rest, ',') {
					cur.Preserves = append(cur.Preserves, strings.TrimSpace(part))
				}
				lib.Scans = append(lib.Scans, fmt.Sprintf("preserves (ownership assumption) in %s (%s:%d): %s", cur.Key, filepath.Base(path), it.line, rest))
				continue
			case "requires", "ensures", "modifies", "assume", "label", "captures":
			default:
				return fail(fmt.Errorf("unknown clause %q", kw))
			}
			if kw == "assume" {
				lib.Scans = append(lib.Scans, fmt.Sprintf("assume in %s (%s:%d): %s", cur.Key, filepath.Base(path), it.line, cl.Text))
			}
			// optional [label]
			if strings.HasPrefix(cl.Text, "[") {
				if j := strings.Index(cl.Text, "]"); j > 0 {
					cl.Label = cl.Text[1:j]
					cl.Text = strings.TrimSpace(cl.Text[j+1:])
				}
			}
			if cl.Kind == "modifies" || cl.Kind == "loopmodifies" {
				for _, part := range splitTopLevel(cl.Text, ',') {
					e, err := parseCExpr(part)
					if err != nil {
						return fail(err)
					}
					cl.Locs = append(cl.Locs, e)
				}
			} else {
				e, err := parseCExpr(cl.Text)
				if err != nil {
					return fail(err)
				}
				cl.Expr = e
			}
			cur.Clauses = append(cur.Clauses, cl)
		}
	}
	return nil
}

var clauseKeywords = map[string]bool{"sendsite": true, "recvsite": true, "package": true, "callsite": true, "iterator": true, "iter": true, "preserves": true, "functype": true, "label": true, "captures": true, "func": true, "pred": true, "specfunc": true, "axiom": true, "lemma": true,
	"requires": true, "ensures": true, "modifies": true, "loop": true, "floats": true, "may_panic": true,
	"inline": true, "trusted": true, "pure": true, "property": true, "assume": true, "nosafety": true}

func startsWithKeyword(s string) bool {
	kw, _ := splitKw(s)
	return clauseKeywords[kw]
}

func splitKw(s string) (string, string) {
	i := strings.IndexAny(s, " \t")
	if i < 0 {
		return s, ""
	}
	return s[:i], s[i+1:]
}

func splitTopLevel(s string, sep byte) []string {
	var out []string
	d, start := 0, 0
	for i := 0; i < len(s); i++ {
		switch s[i] {
		case '(', '[':
			d++
		case ')', ']':
			d--
		default:
			if s[i] == sep && d == 0 {
				out = append(out, strings.TrimSpace(s[start:i]))
				start = i + 1
			}
		}
	}
	if strings.TrimSpace(s[start:]) != "" {
		out = append(out, strings.TrimSpace(s[start:]))
	}
	return out
}

// parseSig parses  name(p T, q U) R
func parseSig(s string) (string, []Param, *CType, error) {
	i := strings.Index(s, "(")
	j := strings.LastIndex(s, ")")
	if i < 0 || j < i {
		return "", nil, nil, fmt.Errorf("bad signature %q", s)
	}
	name := strings.TrimSpace(s[:i])
	var params []Param
	for _, p := range splitTopLevel(s[i+1:j], ',') {
		f := strings.Fields(p)
		if len(f) < 2 {
			return "", nil, nil, fmt.Errorf("bad parameter %q", p)
		}
		t, err := parseCType(strings.Join(f[1:], " "))
		if err != nil {
			return "", nil, nil, err
		}
		params = append(params, Param{f[0], t})
	}
	var ret *CType
	if r := strings.TrimSpace(s[j+1:]); r != "" {
		t, err := parseCType(r)
		if err != nil {
			return "", nil, nil, err
		}
		ret = t
	}
	return name, params, ret, nil
}

// parseSigNames parses  name(a, b)  (parameter names only)
func parseSigNames(s string) (string, []string, *CType, error) {
	i := strings.Index(s, "(")
	j := strings.LastIndex(s, ")")
	if i < 0 || j < i {
		return "", nil, nil, fmt.Errorf("bad functype header %q", s)
	}
	var names []string
	for _, p := range splitTopLevel(s[i+1:j], ',') {
		names = append(names, strings.TrimSpace(p))
	}
	return strings.TrimSpace(s[:i]), names, nil, nil
}
