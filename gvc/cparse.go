package main

// Parser for contract expressions: Go expression syntax plus ==>, <==>, forall/exists, old(),
// result, `in`.

import (
	"fmt"
	"strings"
	"unicode"
)

type CType struct {
	Kind string // "name", "ptr", "slice", "map", "set"
	Name string // for name: possibly qualified (pkg.Name)
	Elem *CType
	Key  *CType
}

func (t *CType) String() string {
	switch t.Kind {
	case "ptr":
		return "*" + t.Elem.String()
	case "slice":
		return "[]" + t.Elem.String()
	case "map":
		return "map[" + t.Key.String() + "]" + t.Elem.String()
	case "set":
		return "set[" + t.Elem.String() + "]"
	}
	return t.Name
}

func parseCType(s string) (*CType, error) {
	s = strings.TrimSpace(s)
	switch {
	case strings.HasPrefix(s, "*"):
		e, err := parseCType(s[1:])
		if err != nil {
			return nil, err
		}
		return &CType{Kind: "ptr", Elem: e}, nil
	case strings.HasPrefix(s, "[]"):
		e, err := parseCType(s[2:])
		if err != nil {
			return nil, err
		}
		return &CType{Kind: "slice", Elem: e}, nil
	case strings.HasPrefix(s, "map["):
		d := 0
		for i := 3; i < len(s); i++ {
			if s[i] == '[' {
				d++
			} else if s[i] == ']' {
				d--
				if d == 0 {
					k, err := parseCType(s[4:i])
					if err != nil {
						return nil, err
					}
					e, err := parseCType(s[i+1:])
					if err != nil {
						return nil, err
					}
					return &CType{Kind: "map", Key: k, Elem: e}, nil
				}
			}
		}
		return nil, fmt.Errorf("bad map type %q", s)
	case strings.HasPrefix(s, "seq["):
		e, err := parseCType(s[4 : len(s)-1])
		if err != nil {
			return nil, err
		}
		return &CType{Kind: "seq", Elem: e}, nil
	case strings.HasPrefix(s, "set["):
		e, err := parseCType(s[4 : len(s)-1])
		if err != nil {
			return nil, err
		}
		return &CType{Kind: "set", Elem: e}, nil
	}
	if s == "" {
		return nil, fmt.Errorf("empty type")
	}
	return &CType{Kind: "name", Name: s}, nil
}

type CExpr struct {
	Op   string // ident, int, float, string, char, bool, nil, result, old, call, index, slice, field, unary, binary, forall, exists, paren
	Name string // ident name / field name / operator / callee
	Args []*CExpr
	Vars []Param // quantifier
	Text string
	Pos  int
	Trig []*CExpr // optional trigger terms for quantifiers  { t1, t2 }
}

func (e *CExpr) String() string {
	if e == nil {
		return "<nil>"
	}
	switch e.Op {
	case "ident", "int", "float", "bool", "nil", "result":
		return e.Name
	case "string":
		return fmt.Sprintf("%q", e.Name)
	case "char":
		return fmt.Sprintf("'%s'", e.Name)
	case "old":
		return "old(" + e.Args[0].String() + ")"
	case "pre":
		return "pre(" + e.Args[0].String() + ")"
	case "prev":
		return "prev(" + e.Args[0].String() + ")"
	case "call":
		var as []string
		for _, a := range e.Args {
			as = append(as, a.String())
		}
		return e.Name + "(" + strings.Join(as, ", ") + ")"
	case "index":
		return e.Args[0].String() + "[" + e.Args[1].String() + "]"
	case "slice":
		lo, hi := "", ""
		if e.Args[1] != nil {
			lo = e.Args[1].String()
		}
		if e.Args[2] != nil {
			hi = e.Args[2].String()
		}
		return e.Args[0].String() + "[" + lo + ":" + hi + "]"
	case "field":
		return e.Args[0].String() + "." + e.Name
	case "unary":
		return e.Name + e.Args[0].String()
	case "binary":
		return "(" + e.Args[0].String() + " " + e.Name + " " + e.Args[1].String() + ")"
	case "forall", "exists":
		var vs []string
		for _, v := range e.Vars {
			vs = append(vs, v.Name+" "+v.Type.String())
		}
		return e.Op + " " + strings.Join(vs, ", ") + " :: " + e.Args[0].String()
	case "star":
		return e.Args[0].String() + "[*]"
	}
	return "?" + e.Op
}

type ctok struct {
	kind string // ident, int, float, string, char, op, eof
	text string
	pos  int
}

func clex(s string) ([]ctok, error) {
	var toks []ctok
	i := 0
	for i < len(s) {
		c := s[i]
		switch {
		case c == ' ' || c == '\t' || c == '\n' || c == '\r':
			i++
		case unicode.IsLetter(rune(c)) || c == '_':
			j := i
			for j < len(s) && (unicode.IsLetter(rune(s[j])) || unicode.IsDigit(rune(s[j])) || s[j] == '_' || s[j] == '$') {
				j++
			}
			toks = append(toks, ctok{"ident", s[i:j], i})
			i = j
		case unicode.IsDigit(rune(c)):
			j := i
			isF := false
			if c == '0' && j+1 < len(s) && (s[j+1] == 'x' || s[j+1] == 'X') {
				j += 2
				for j < len(s) && strings.ContainsRune("0123456789abcdefABCDEF_", rune(s[j])) {
					j++
				}
			} else {
				for j < len(s) && (unicode.IsDigit(rune(s[j])) || s[j] == '_') {
					j++
				}
				if j+1 < len(s) && s[j] == '.' && unicode.IsDigit(rune(s[j+1])) {
					isF = true
					j++
					for j < len(s) && unicode.IsDigit(rune(s[j])) {
						j++
					}
				}
			}
			if isF {
				toks = append(toks, ctok{"float", s[i:j], i})
			} else {
				toks = append(toks, ctok{"int", strings.ReplaceAll(s[i:j], "_", ""), i})
			}
			i = j
		case c == '"':
			j := i + 1
			var b strings.Builder
			for j < len(s) && s[j] != '"' {
				if s[j] == '\\' && j+1 < len(s) {
					j++
					switch s[j] {
					case 'n':
						b.WriteByte('\n')
					case 't':
						b.WriteByte('\t')
					case '\\':
						b.WriteByte('\\')
					case '"':
						b.WriteByte('"')
					default:
						b.WriteByte(s[j])
					}
				} else {
					b.WriteByte(s[j])
				}
				j++
			}
			if j >= len(s) {
				return nil, fmt.Errorf("unterminated string at %d", i)
			}
			toks = append(toks, ctok{"string", b.String(), i})
			i = j + 1
		case c == '\'':
			j := i + 1
			var ch string
			if j < len(s) && s[j] == '\\' && j+1 < len(s) {
				switch s[j+1] {
				case 'n':
					ch = "\n"
				case 't':
					ch = "\t"
				case '\\':
					ch = "\\"
				case '\'':
					ch = "'"
				case '0':
					ch = "\x00"
				default:
					ch = string(s[j+1])
				}
				j += 2
			} else if j < len(s) {
				ch = string(s[j])
				j++
			}
			if j >= len(s) || s[j] != '\'' {
				return nil, fmt.Errorf("bad char literal at %d", i)
			}
			toks = append(toks, ctok{"char", ch, i})
			i = j + 1
		default:
			ops := []string{"<==>", "==>", "::", ":=", "==", "!=", "<=", ">=", "&&", "||", "<<", ">>", "&^",
				"+", "-", "*", "/", "%", "<", ">", "!", "(", ")", "[", "]", ".", ",", ":", "&", "|", "^", "{", "}"}
			matched := false
			for _, op := range ops {
				if strings.HasPrefix(s[i:], op) {
					toks = append(toks, ctok{"op", op, i})
					i += len(op)
					matched = true
					break
				}
			}
			if !matched {
				return nil, fmt.Errorf("unexpected character %q at %d", c, i)
			}
		}
	}
	toks = append(toks, ctok{"eof", "", len(s)})
	return toks, nil
}

type cparser struct {
	toks []ctok
	p    int
	src  string
}

func parseCExpr(s string) (*CExpr, error) {
	s = strings.TrimSpace(s)
	toks, err := clex(s)
	if err != nil {
		return nil, err
	}
	p := &cparser{toks: toks, src: s}
	e, err := p.expr()
	if err != nil {
		return nil, err
	}
	if p.peek().kind != "eof" {
		return nil, fmt.Errorf("unexpected %q at %d in %q", p.peek().text, p.peek().pos, s)
	}
	e.Text = s
	return e, nil
}

func (p *cparser) peek() ctok { return p.toks[p.p] }
func (p *cparser) next() ctok  { t := p.toks[p.p]; p.p++; return t }
func (p *cparser) isOp(op string) bool {
	t := p.peek()
	return t.kind == "op" && t.text == op
}
func (p *cparser) isIdent(name string) bool {
	t := p.peek()
	return t.kind == "ident" && t.text == name
}
func (p *cparser) expect(op string) error {
	if !p.isOp(op) {
		return fmt.Errorf("expected %q, found %q at %d in %q", op, p.peek().text, p.peek().pos, p.src)
	}
	p.p++
	return nil
}

func (p *cparser) expr() (*CExpr, error) {
	if p.isIdent("forall") || p.isIdent("exists") {
		q := p.next().text
		var vars []Param
		for {
			if p.peek().kind != "ident" {
				return nil, fmt.Errorf("quantifier: expected variable name at %d", p.peek().pos)
			}
			name := p.next().text
			// type runs until ',' or '::'
			start := p.peek().pos
			d := 0
			for !(d == 0 && (p.isOp(",") || p.isOp("::"))) {
				if p.peek().kind == "eof" {
					return nil, fmt.Errorf("quantifier: missing ::")
				}
				if p.isOp("[") {
					d++
				}
				if p.isOp("]") {
					d--
				}
				p.p++
			}
			end := p.peek().pos
			t, err := parseCType(p.src[start:end])
			if err != nil {
				return nil, err
			}
			vars = append(vars, Param{name, t})
			if p.isOp(",") {
				p.p++
				continue
			}
			break
		}
		if err := p.expect("::"); err != nil {
			return nil, err
		}
		var trig []*CExpr
		if p.isOp("{") {
			p.p++
			for {
				t, err := p.expr()
				if err != nil {
					return nil, err
				}
				trig = append(trig, t)
				if p.isOp(",") {
					p.p++
					continue
				}
				break
			}
			if err := p.expect("}"); err != nil {
				return nil, err
			}
		}
		body, err := p.expr()
		if err != nil {
			return nil, err
		}
		return &CExpr{Op: q, Vars: vars, Args: []*CExpr{body}, Trig: trig}, nil
	}
	return p.iff()
}

func (p *cparser) iff() (*CExpr, error) {
	l, err := p.impl()
	if err != nil {
		return nil, err
	}
	for p.isOp("<==>") {
		p.p++
		r, err := p.impl()
		if err != nil {
			return nil, err
		}
		l = &CExpr{Op: "binary", Name: "<==>", Args: []*CExpr{l, r}}
	}
	return l, nil
}

func (p *cparser) impl() (*CExpr, error) {
	l, err := p.orE()
	if err != nil {
		return nil, err
	}
	if p.isOp("==>") {
		p.p++
		var r *CExpr
		if p.isIdent("forall") || p.isIdent("exists") {
			r, err = p.expr()
		} else {
			r, err = p.impl()
		}
		if err != nil {
			return nil, err
		}
		return &CExpr{Op: "binary", Name: "==>", Args: []*CExpr{l, r}}, nil
	}
	return l, nil
}

func (p *cparser) binLevel(ops []string, sub func() (*CExpr, error)) (*CExpr, error) {
	l, err := sub()
	if err != nil {
		return nil, err
	}
	for {
		found := ""
		for _, op := range ops {
			if p.isOp(op) {
				found = op
			}
		}
		if found == "" && contains(ops, "in") && p.isIdent("in") {
			found = "in"
		}
		if found == "" {
			return l, nil
		}
		p.p++
		var r *CExpr
		if p.isIdent("forall") || p.isIdent("exists") {
			r, err = p.expr()
		} else {
			r, err = sub()
		}
		if err != nil {
			return nil, err
		}
		l = &CExpr{Op: "binary", Name: found, Args: []*CExpr{l, r}}
	}
}

func contains(xs []string, x string) bool {
	for _, y := range xs {
		if x == y {
			return true
		}
	}
	return false
}

func (p *cparser) orE() (*CExpr, error)  { return p.binLevel([]string{"||"}, p.andE) }
func (p *cparser) andE() (*CExpr, error) { return p.binLevel([]string{"&&"}, p.cmpE) }
func (p *cparser) cmpE() (*CExpr, error) {
	return p.binLevel([]string{"==", "!=", "<", "<=", ">", ">=", "in"}, p.addE)
}
func (p *cparser) addE() (*CExpr, error) { return p.binLevel([]string{"+", "-", "|", "^"}, p.mulE) }
func (p *cparser) mulE() (*CExpr, error) {
	return p.binLevel([]string{"*", "/", "%", "&", "<<", ">>"}, p.unary)
}

func (p *cparser) unary() (*CExpr, error) {
	if p.isOp("!") || p.isOp("-") {
		op := p.next().text
		a, err := p.unary()
		if err != nil {
			return nil, err
		}
		return &CExpr{Op: "unary", Name: op, Args: []*CExpr{a}}, nil
	}
	return p.postfix()
}

func (p *cparser) postfix() (*CExpr, error) {
	e, err := p.primary()
	if err != nil {
		return nil, err
	}
	for {
		switch {
		case p.isOp("."):
			p.p++
			if p.isOp("*") { // loc.*  (all fields / all contents)
				p.p++
				e = &CExpr{Op: "star", Name: ".", Args: []*CExpr{e}}
				continue
			}
			if p.peek().kind != "ident" {
				return nil, fmt.Errorf("expected field name at %d in %q", p.peek().pos, p.src)
			}
			name := p.next().text
			if p.isOp("(") && e.Op == "ident" { // qualified call pkg.f(...)
				p.p++
				args, err := p.args()
				if err != nil {
					return nil, err
				}
				e = &CExpr{Op: "call", Name: e.Name + "." + name, Args: args}
				continue
			}
			e = &CExpr{Op: "field", Name: name, Args: []*CExpr{e}}
		case p.isOp("["):
			p.p++
			if p.isOp("*") {
				p.p++
				if err := p.expect("]"); err != nil {
					return nil, err
				}
				e = &CExpr{Op: "star", Name: "[]", Args: []*CExpr{e}}
				continue
			}
			var lo, hi *CExpr
			if !p.isOp(":") {
				lo, err = p.expr()
				if err != nil {
					return nil, err
				}
			}
			if p.isOp(":") {
				p.p++
				if !p.isOp("]") {
					hi, err = p.expr()
					if err != nil {
						return nil, err
					}
				}
				if err := p.expect("]"); err != nil {
					return nil, err
				}
				e = &CExpr{Op: "slice", Args: []*CExpr{e, lo, hi}}
				continue
			}
			if err := p.expect("]"); err != nil {
				return nil, err
			}
			e = &CExpr{Op: "index", Args: []*CExpr{e, lo}}
		default:
			return e, nil
		}
	}
}

func (p *cparser) args() ([]*CExpr, error) {
	var args []*CExpr
	if p.isOp(")") {
		p.p++
		return args, nil
	}
	for {
		a, err := p.expr()
		if err != nil {
			return nil, err
		}
		args = append(args, a)
		if p.isOp(",") {
			p.p++
			continue
		}
		break
	}
	if err := p.expect(")"); err != nil {
		return nil, err
	}
	return args, nil
}

func (p *cparser) primary() (*CExpr, error) {
	t := p.next()
	switch t.kind {
	case "int":
		return &CExpr{Op: "int", Name: t.text, Pos: t.pos}, nil
	case "float":
		return &CExpr{Op: "float", Name: t.text, Pos: t.pos}, nil
	case "string":
		return &CExpr{Op: "string", Name: t.text, Pos: t.pos}, nil
	case "char":
		return &CExpr{Op: "char", Name: t.text, Pos: t.pos}, nil
	case "ident":
		switch t.text {
		case "true", "false":
			return &CExpr{Op: "bool", Name: t.text}, nil
		case "nil":
			return &CExpr{Op: "nil", Name: "nil"}, nil
		case "result":
			return &CExpr{Op: "result", Name: "result"}, nil
		case "prev":
			if p.isOp("(") {
				p.p++
				a, err := p.expr()
				if err != nil {
					return nil, err
				}
				if err := p.expect(")"); err != nil {
					return nil, err
				}
				return &CExpr{Op: "prev", Args: []*CExpr{a}}, nil
			}
		case "pre":
			if p.isOp("(") {
				p.p++
				a, err := p.expr()
				if err != nil {
					return nil, err
				}
				if err := p.expect(")"); err != nil {
					return nil, err
				}
				return &CExpr{Op: "pre", Args: []*CExpr{a}}, nil
			}
		case "old":
			if p.isOp("(") {
				p.p++
				a, err := p.expr()
				if err != nil {
					return nil, err
				}
				if err := p.expect(")"); err != nil {
					return nil, err
				}
				return &CExpr{Op: "old", Args: []*CExpr{a}}, nil
			}
		}
		if p.isOp("(") {
			p.p++
			args, err := p.args()
			if err != nil {
				return nil, err
			}
			return &CExpr{Op: "call", Name: t.text, Args: args, Pos: t.pos}, nil
		}
		return &CExpr{Op: "ident", Name: t.text, Pos: t.pos}, nil
	case "op":
		if t.text == "(" {
			e, err := p.expr()
			if err != nil {
				return nil, err
			}
			if err := p.expect(")"); err != nil {
				return nil, err
			}
			return e, nil
		}
	}
	return nil, fmt.Errorf("unexpected %q at %d in %q", t.text, t.pos, p.src)
}

// theLib gives conjuncts() access to predicate definitions (set when contracts are loaded).
var theLib *SpecLib

// conjuncts splits a goal into separately provable parts: conjunctions, conjunctive
// consequents of implications, conjunctive bodies of universal quantifiers, and predicate
// applications (unfolded).
func conjuncts(e *CExpr) []*CExpr {
	switch {
	case e.Op == "binary" && e.Name == "&&":
		return append(conjuncts(e.Args[0]), conjuncts(e.Args[1])...)
	case e.Op == "binary" && e.Name == "==>":
		var out []*CExpr
		for _, c := range conjuncts(e.Args[1]) {
			out = append(out, &CExpr{Op: "binary", Name: "==>", Args: []*CExpr{e.Args[0], c}})
		}
		return out
	case e.Op == "forall" && len(e.Trig) == 0:
		parts := conjuncts(e.Args[0])
		if len(parts) == 1 {
			return []*CExpr{e}
		}
		var out []*CExpr
		for _, c := range parts {
			out = append(out, &CExpr{Op: "forall", Vars: e.Vars, Args: []*CExpr{c}})
		}
		return out
	case e.Op == "call" && theLib != nil:
		if p, ok := theLib.Preds[e.Name]; ok && len(p.Params) == len(e.Args) {
			sub := map[string]*CExpr{}
			for i, prm := range p.Params {
				sub[prm.Name] = e.Args[i]
			}
			if body, ok := substExpr(p.Body, sub, map[string]bool{}); ok {
				parts := conjuncts(body)
				if len(parts) > 1 {
					return parts
				}
			}
		}
	}
	return []*CExpr{e}
}

// substExpr replaces free identifiers; ok=false if a substitution would be captured by a
// quantifier of the body (then the predicate is left folded).
func substExpr(e *CExpr, sub map[string]*CExpr, bound map[string]bool) (*CExpr, bool) {
	if e == nil {
		return nil, true
	}
	if e.Op == "ident" {
		if r, ok := sub[e.Name]; ok && !bound[e.Name] {
			return r, true
		}
		return e, true
	}
	n := *e
	if e.Op == "forall" || e.Op == "exists" {
		nb := map[string]bool{}
		for k := range bound {
			nb[k] = true
		}
		for _, v := range e.Vars {
			nb[v.Name] = true
			// capture check: an argument mentioning this bound name
			for _, a := range sub {
				if exprMentionsIdent(a, v.Name) {
					return nil, false
				}
			}
		}
		bound = nb
	}
	n.Args = make([]*CExpr, len(e.Args))
	for i, a := range e.Args {
		r, ok := substExpr(a, sub, bound)
		if !ok {
			return nil, false
		}
		n.Args[i] = r
	}
	if len(e.Trig) > 0 {
		n.Trig = make([]*CExpr, len(e.Trig))
		for i, a := range e.Trig {
			r, ok := substExpr(a, sub, bound)
			if !ok {
				return nil, false
			}
			n.Trig[i] = r
		}
	}
	return &n, true
}
