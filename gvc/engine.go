package main

import (
	"fmt"
	"go/ast"
	"go/token"
	"go/types"
	"os"
	"path/filepath"
	"sort"
	"strings"

	"golang.org/x/tools/go/packages"
	"golang.org/x/tools/go/ssa"
	"golang.org/x/tools/go/ssa/ssautil"
)

const modulePath = "github.com/atlassian/gostatsd"

type Engine struct {
	repo      string
	prog      *ssa.Program
	fset      *token.FileSet
	pkgs      []*packages.Package
	pkgByPath map[string]*ssa.Package
	astFiles  map[string]*ast.File
	sources   map[string][]byte
	lib       *SpecLib
	loopCache map[*ssa.Function]*LoopInfo
	effCache  map[*ssa.Function]*Effects
	fnByKey   map[string]*ssa.Function // pkgpath::relname
	fieldsTy  map[string][]fieldCand
	allStructs []types.Type
	loadErrors []string
	sigCache   map[*Contract]types.Type
	globalNN   map[*ssa.Global]bool
}

type fieldCand struct {
	st  types.Type
	idx int
}

// load loads the given packages of the repository (with the verif tag) and their contracts.
// overlay maps file names to replacement contents (used for in-memory mutants).
func loadEngine(repo string, patterns []string, overlay map[string][]byte, specDirs []string) (*Engine, error) {
	e := &Engine{repo: repo, pkgByPath: map[string]*ssa.Package{}, astFiles: map[string]*ast.File{}, sources: map[string][]byte{},
		lib: newSpecLib(), loopCache: map[*ssa.Function]*LoopInfo{}, effCache: map[*ssa.Function]*Effects{}, fnByKey: map[string]*ssa.Function{},
		fieldsTy: map[string][]fieldCand{}, sigCache: map[*Contract]types.Type{}, globalNN: map[*ssa.Global]bool{}}
	e.fset = token.NewFileSet()
	cfg := &packages.Config{Mode: packages.LoadAllSyntax, Dir: repo, BuildFlags: []string{"-tags=verif"}, Fset: e.fset, Overlay: overlay,
		Env: goEnv()}
	pkgs, err := packages.Load(cfg, patterns...)
	if err != nil {
		return nil, err
	}
	var errs []string
	packages.Visit(pkgs, nil, func(p *packages.Package) {
		if strings.HasPrefix(p.PkgPath, modulePath) {
			for _, er := range p.Errors {
				errs = append(errs, er.Error())
			}
		}
	})
	if len(errs) > 0 {
		return nil, fmt.Errorf("load errors:\n%s", strings.Join(errs, "\n"))
	}
	e.pkgs = pkgs
	prog, _ := ssautil.AllPackages(pkgs, ssa.NaiveForm|ssa.InstantiateGenerics)
	e.prog = prog
	for _, sp := range prog.AllPackages() {
		if strings.HasPrefix(sp.Pkg.Path(), modulePath) {
			sp.Build()
			e.pkgByPath[sp.Pkg.Path()] = sp
		}
	}
	packages.Visit(pkgs, nil, func(p *packages.Package) {
		if !strings.HasPrefix(p.PkgPath, modulePath) {
			return
		}
		for i, f := range p.Syntax {
			if i < len(p.CompiledGoFiles) {
				name := p.CompiledGoFiles[i]
				e.astFiles[name] = f
				if src, ok := overlay[name]; ok {
					e.sources[name] = src
				} else if src, err := os.ReadFile(name); err == nil {
					e.sources[name] = src
				}
			}
		}
		// contracts of this package
		dir := ""
		if len(p.GoFiles) > 0 {
			dir = filepath.Dir(p.GoFiles[0])
		}
		if dir != "" {
			cf := filepath.Join(dir, "zz_verif_contracts.go")
			if _, err := os.Stat(cf); err == nil {
				if err := e.lib.loadContractFile(cf, p.PkgPath); err != nil {
					e.loadErrors = append(e.loadErrors, err.Error())
				}
			}
		}
		// struct types for opaque-pointer case splits
		sc := p.Types.Scope()
		for _, n := range sc.Names() {
			if tn, ok := sc.Lookup(n).(*types.TypeName); ok {
				if _, ok := tn.Type().Underlying().(*types.Struct); ok {
					e.allStructs = append(e.allStructs, tn.Type())
				}
			}
		}
	})
	for _, d := range specDirs {
		files, _ := filepath.Glob(filepath.Join(d, "*.gvs"))
		sort.Strings(files)
		for _, f := range files {
			if err := e.lib.loadContractFile(f, ""); err != nil {
				e.loadErrors = append(e.loadErrors, err.Error())
			}
		}
	}
	theLib = e.lib
	if len(e.loadErrors) > 0 {
		return nil, fmt.Errorf("contract errors:\n%s", strings.Join(e.loadErrors, "\n"))
	}
	// index functions
	for path, sp := range e.pkgByPath {
		for fn := range ssautil.AllFunctions(prog) {
			_ = fn
			break
		}
		_ = path
		_ = sp
	}
	for fn := range ssautil.AllFunctions(prog) {
		p := fn
		for p.Pkg == nil && p.Parent() != nil {
			p = p.Parent()
		}
		if p.Pkg == nil || !strings.HasPrefix(p.Pkg.Pkg.Path(), modulePath) {
			continue
		}
		if fn.Synthetic != "" && !strings.Contains(fn.Synthetic, "instance") {
			continue
		}
		e.fnByKey[p.Pkg.Pkg.Path()+"::"+relName(fn)] = fn
	}
	return e, nil
}

const goToolchainBin = "/root/go/pkg/mod/golang.org/toolchain@v0.0.1-go1.23.6.linux-amd64/bin"

// goEnv: the repository needs go1.23.6; the cached toolchain directory is put first on PATH
// (GOTOOLCHAIN=local, no network).
func goEnv() []string {
	env := []string{}
	for _, kv := range os.Environ() {
		if strings.HasPrefix(kv, "PATH=") || strings.HasPrefix(kv, "GOFLAGS=") || strings.HasPrefix(kv, "GOPROXY=") || strings.HasPrefix(kv, "GOTOOLCHAIN=") {
			continue
		}
		env = append(env, kv)
	}
	path := os.Getenv("PATH")
	if _, err := os.Stat(goToolchainBin); err == nil {
		path = goToolchainBin + ":" + path
	}
	return append(env, "PATH="+path, "GOFLAGS=-mod=mod", "GOPROXY=off", "GOTOOLCHAIN=local")
}

// relName is the key used in contract files: RelString relative to the package, with closures
// as parent$n.
func relName(fn *ssa.Function) string {
	if fn.Parent() != nil {
		return relName(fn.Parent()) + "$" + strings.TrimPrefix(fn.Name(), fn.Parent().Name()+"$")
	}
	if fn.Pkg != nil {
		return fn.RelString(fn.Pkg.Pkg)
	}
	return fn.String()
}

func (e *Engine) contractOf(fn *ssa.Function) *Contract {
	if strings.HasPrefix(fn.Synthetic, "bound method wrapper") {
		// key: the method's key + "$bound", in the method's package; the receiver is the
		// free variable `recv`
		if m, ok := fn.Object().(*types.Func); ok && m.Pkg() != nil {
			if mf := e.prog.FuncValue(m); mf != nil {
				return e.lib.Contracts[m.Pkg().Path()+"::"+relName(mf)+"$bound"]
			}
		}
		return nil
	}
	p := fn
	for p.Pkg == nil && p.Parent() != nil {
		p = p.Parent()
	}
	if p.Pkg == nil {
		return nil
	}
	return e.lib.Contracts[p.Pkg.Pkg.Path()+"::"+relName(fn)]
}

func (e *Engine) inScope(fn *ssa.Function) bool {
	if strings.HasPrefix(fn.Synthetic, "bound method wrapper") || strings.HasPrefix(fn.Synthetic, "wrapper for") {
		if o := fn.Object(); o != nil && o.Pkg() != nil {
			return strings.HasPrefix(o.Pkg().Path(), modulePath)
		}
		return true
	}
	p := fn
	for p.Pkg == nil && p.Parent() != nil {
		p = p.Parent()
	}
	return p.Pkg != nil && strings.HasPrefix(p.Pkg.Pkg.Path(), modulePath)
}

func (e *Engine) fieldsOfType(t types.Type) []fieldCand {
	key := t.String()
	if v, ok := e.fieldsTy[key]; ok {
		return v
	}
	var out []fieldCand
	for _, st := range e.allStructs {
		s := st.Underlying().(*types.Struct)
		for i := 0; i < s.NumFields(); i++ {
			if types.Identical(s.Field(i).Type(), t) {
				out = append(out, fieldCand{st, i})
			}
		}
	}
	e.fieldsTy[key] = out
	return out
}

// typeContract returns the contract attached to a function type: by name for named types, by
// signature (declared with `sig`) for unnamed ones, looked up in package pkg.
func (e *Engine) typeContract(t types.Type, pkg *types.Package) *Contract {
	if n, ok := t.(*types.Named); ok && n.Obj().Pkg() != nil {
		return e.lib.FuncTypes[n.Obj().Pkg().Path()+"::"+n.Obj().Name()]
	}
	sig, ok := t.(*types.Signature)
	if !ok || pkg == nil {
		return nil
	}
	for _, k := range sortedKeys(e.lib.FuncTypes) {
		tc := e.lib.FuncTypes[k]
		if tc.PkgPath != pkg.Path() {
			continue
		}
		if tc.Sig == "" {
			// a value of the unnamed underlying type of a named function type
			if tn, ok := pkg.Scope().Lookup(funcTypeName(tc)).(*types.TypeName); ok && types.Identical(tn.Type().Underlying(), sig) {
				return tc
			}
			continue
		}
		if st := e.sigType(tc, pkg); st != nil && types.Identical(st, sig) {
			return tc
		}
	}
	return nil
}

func (e *Engine) sigType(tc *Contract, pkg *types.Package) types.Type {
	if t, ok := e.sigCache[tc]; ok {
		return t
	}
	// imports are file-scoped: evaluate the type expression inside each file of the package
	// until it resolves
	positions := []token.Pos{token.NoPos}
	for name, f := range e.astFiles {
		if f.Name != nil && f.Name.Name == pkg.Name() && strings.HasPrefix(name, e.repo) && len(f.Decls) > 0 {
			positions = append(positions, f.Decls[len(f.Decls)-1].Pos())
		}
	}
	for _, pos := range positions {
		tv, err := types.Eval(e.fset, pkg, pos, tc.Sig)
		if err == nil {
			e.sigCache[tc] = tv.Type
			return tv.Type
		}
	}
	e.sigCache[tc] = nil
	return nil
}

// typeContractOfFn: the function-type contract a function must satisfy because its signature
// is that of a named function type with a contract in its own package.
func (e *Engine) typeContractOfFn(fn *ssa.Function) (*Contract, types.Type) {
	p := fn
	for p.Pkg == nil && p.Parent() != nil {
		p = p.Parent()
	}
	if p.Pkg == nil || fn.Signature.Recv() != nil {
		return nil, nil
	}
	path := p.Pkg.Pkg.Path()
	for _, k := range sortedKeys(e.lib.FuncTypes) {
		tc := e.lib.FuncTypes[k]
		if !strings.HasPrefix(k, path+"::") {
			continue
		}
		if tc.Sig != "" {
			if st := e.sigType(tc, p.Pkg.Pkg); st != nil && types.Identical(st, fn.Signature) {
				return tc, st
			}
			continue
		}
		obj := p.Pkg.Pkg.Scope().Lookup(strings.TrimPrefix(k, path+"::"))
		tn, ok := obj.(*types.TypeName)
		if !ok {
			continue
		}
		if sig, ok := tn.Type().Underlying().(*types.Signature); ok && types.Identical(sig, fn.Signature) {
			return tc, tn.Type()
		}
	}
	return nil, nil
}

func funcTypeName(tc *Contract) string { return strings.TrimPrefix(tc.Key, "functype:") }

// typeEnv: environment for a function-type contract: positional parameter names and self.
func (c *FnCtx) typeEnv(tc *Contract, pkg *types.Package, sig *types.Signature, self Val, args []Val, st *State) *CEnv {
	e := &CEnv{c: c, names: map[string]Val{}, st: st, old: st, pkg: pkg}
	for i, n := range tc.ParamNames {
		if i < len(args) {
			v := args[i]
			if i < sig.Params().Len() {
				v.T = sig.Params().At(i).Type()
			}
			e.names[n] = v
		}
	}
	if self.Term == "" {
		self.Term = c.termOf(self)
	}
	e.names["self"] = self
	return e
}

func (fr *Frame) callTypeContract(tc *Contract, fv Val, args []Val, st *State, reach string, pos token.Pos) []Val {
	c := fr.c
	sig := fv.T.Underlying().(*types.Signature)
	tname := funcTypeName(tc)
	pkg := fr.pkg()
	c.contractsUsed["functype "+tname] = true
	env := c.typeEnv(tc, pkg, sig, fv, args, st)
	for _, cl := range tc.clauses("requires") {
		for _, cj := range conjuncts(cl.Expr) {
			t, err := env.evalBool(cj)
			if err != nil {
				fr.bindFailure(cl, err)
				continue
			}
			fr.oblige("pre", tname+" requires "+cj.String(), reach, t, pos)
		}
	}
	old := st.clone()
	ms, err := env.modSet(tc)
	if err != nil {
		fr.bindFailure(&Clause{Kind: "modifies", Text: tc.Key}, err)
		c.havocAll(st)
	} else {
		ms.preserve = append(ms.preserve, tc.Preserves...)
		c.applyHavoc(st, old, ms, true)
	}
	var results []Val
	for i := 0; i < sig.Results().Len(); i++ {
		results = append(results, fr.havocVal(sig.Results().At(i).Type(), "res.dyn"))
	}
	env2 := c.typeEnv(tc, pkg, sig, fv, args, st)
	env2.old = old
	env2.results = results
	for _, cl := range tc.clauses("ensures") {
		t, err := env2.evalBool(cl.Expr)
		if err != nil {
			fr.bindFailure(cl, err)
			continue
		}
		c.smt.assume(implies(reach, t), "ensures of functype "+tname+": "+cl.Text)
	}
	return results
}

// assumeLabels: definitional facts about a function value (labels of its code).
func (c *FnCtx) assumeLabels(fv *FnVal, self string, st *State) {
	ct := c.eng.contractOf(fv.Fn)
	if ct == nil || len(ct.clauses("label")) == 0 {
		return
	}
	env := c.calleeEnv(fv.Fn, fv, nil, st)
	env.names["self"] = Val{T: fv.Fn.Signature, Term: self}
	for _, cl := range ct.clauses("label") {
		// labels over captured variables are evaluated when the closure is created: the
		// variables they mention must be assigned only once
		for _, v := range fv.Fn.FreeVars {
			if exprMentionsIdent(cl.Expr, v.Name()) && !c.eng.singleAssignment(fv.Fn, v) {
				c.unsupported("label of " + shortFn(fv.Fn) + " mentions captured variable " + v.Name() + " that is assigned more than once")
			}
		}
		t, err := env.evalBool(cl.Expr)
		if err != nil {
			c.unsupported("label of " + shortFn(fv.Fn) + ": " + err.Error())
			continue
		}
		c.smt.assume(t, "label of "+shortFn(fv.Fn)+": "+cl.Text)
	}
}

func exprMentionsIdent(x *CExpr, name string) bool {
	if x == nil {
		return false
	}
	if x.Op == "ident" && x.Name == name {
		return true
	}
	for _, a := range x.Args {
		if exprMentionsIdent(a, name) {
			return true
		}
	}
	return false
}

// singleAssignment: the captured variable is stored at most once in the parent and never in
// the closure.
func (e *Engine) singleAssignment(closure *ssa.Function, fv *ssa.FreeVar) bool {
	for _, b := range closure.Blocks {
		for _, in := range b.Instrs {
			if s, ok := in.(*ssa.Store); ok && s.Addr == fv {
				return false
			}
		}
	}
	parent := closure.Parent()
	if parent == nil {
		return false
	}
	// find the Alloc bound to this free variable at the MakeClosure sites
	idx := -1
	for i, f := range closure.FreeVars {
		if f == fv {
			idx = i
		}
	}
	for _, b := range parent.Blocks {
		for _, in := range b.Instrs {
			mc, ok := in.(*ssa.MakeClosure)
			if !ok || mc.Fn != closure || idx >= len(mc.Bindings) {
				continue
			}
			al, ok := mc.Bindings[idx].(*ssa.Alloc)
			if !ok {
				if _, isFV := mc.Bindings[idx].(*ssa.FreeVar); isFV {
					continue // captured from a further enclosing function: checked there
				}
				return false
			}
			n := 0
			for _, b2 := range parent.Blocks {
				for _, in2 := range b2.Instrs {
					if s, ok := in2.(*ssa.Store); ok && s.Addr == al {
						n++
					}
				}
			}
			if n > 1 {
				return false
			}
			// other closures of the parent writing it
			for _, an := range parent.AnonFuncs {
				for j, f2 := range an.FreeVars {
					_ = j
					if f2.Name() == fv.Name() && an != closure {
						for _, b3 := range an.Blocks {
							for _, in3 := range b3.Instrs {
								if s, ok := in3.(*ssa.Store); ok && s.Addr == f2 {
									return false
								}
							}
						}
					}
				}
			}
		}
	}
	return true
}

// effects ----------------------------------------------------------------------------------------------

type Effects struct {
	all    bool
	allSrc [][]string // one entry per source of `all`: the struct types that source preserves
	heaps  map[string]bool
	sorts  map[string]string
	cells  map[*ssa.Alloc]bool
	ranges map[string]bool
	ghost  map[string]bool
}

func newEffects() *Effects {
	return &Effects{heaps: map[string]bool{}, sorts: map[string]string{}, cells: map[*ssa.Alloc]bool{}, ranges: map[string]bool{}, ghost: map[string]bool{}}
}

func (a *Effects) setAll(preserve []string) {
	a.all = true
	a.allSrc = append(a.allSrc, preserve)
}

// preserved: struct types preserved by every source of `all`.
func (a *Effects) preserved() []string {
	if len(a.allSrc) == 0 {
		return nil
	}
	var out []string
	for _, t := range a.allSrc[0] {
		inAll := true
		for _, other := range a.allSrc[1:] {
			if !contains(other, t) {
				inAll = false
			}
		}
		if inAll {
			out = append(out, t)
		}
	}
	return out
}

func (a *Effects) merge(b *Effects) {
	if b.all {
		a.all = true
		a.allSrc = append(a.allSrc, b.allSrc...)
		if len(b.allSrc) == 0 {
			a.allSrc = append(a.allSrc, nil)
		}
	}
	for k := range b.heaps {
		a.heaps[k] = true
	}
	for k, v := range b.sorts {
		a.sorts[k] = v
	}
	for k := range b.ghost {
		a.ghost[k] = true
	}
}

// scratch context used only to compute heap names / sorts statically
func (e *Engine) scratch() *FnCtx { return e.newFnCtx(nil, nil) }

func (e *Engine) loopEffects(fn *ssa.Function, lp *Loop, fr *Frame) *Effects {
	eff := newEffects()
	sc := e.scratch()
	var blocks []*ssa.BasicBlock
	for b := range lp.body {
		blocks = append(blocks, b)
	}
	sort.Slice(blocks, func(i, j int) bool { return blocks[i].Index < blocks[j].Index })
	for _, b := range blocks {
		for _, in := range b.Instrs {
			e.instrEffects(sc, fn, in, eff, 0, true, fr)
		}
	}
	return eff
}

func (e *Engine) fnEffects(fn *ssa.Function, depth int) *Effects {
	if eff, ok := e.effCache[fn]; ok {
		if eff == nil { // recursion
			r := newEffects()
			r.setAll(nil)
			return r
		}
		return eff
	}
	e.effCache[fn] = nil
	eff := newEffects()
	sc := e.scratch()
	for _, b := range fn.Blocks {
		for _, in := range b.Instrs {
			e.instrEffects(sc, fn, in, eff, depth, false, nil)
		}
	}
	e.effCache[fn] = eff
	return eff
}

func (eff *Effects) heap(name, sort string) {
	eff.heaps[name] = true
	eff.sorts[name] = sort
}

// rootOfAddr classifies the location written by a store through address value v.
func (e *Engine) storeEffects(sc *FnCtx, v ssa.Value, eff *Effects, local bool) {
	switch x := v.(type) {
	case *ssa.Alloc:
		if !x.Heap {
			if local {
				eff.cells[x] = true
			}
			return
		}
		et := x.Type().(*types.Pointer).Elem()
		e.objectEffects(sc, et, eff)
	case *ssa.FieldAddr:
		// path into a local struct?
		if root := localRoot(x.X); root != nil {
			if local {
				eff.cells[root] = true
			}
			return
		}
		stT := x.X.Type().Underlying().(*types.Pointer).Elem()
		name, sort := sc.fieldHeap(stT, x.Field)
		eff.heap(name, sort)
	case *ssa.IndexAddr:
		switch u := x.X.Type().Underlying().(type) {
		case *types.Slice:
			name, sort := sc.elemHeap(u.Elem())
			eff.heap(name, sort)
		case *types.Pointer:
			if root := localRoot(x.X); root != nil {
				if local {
					eff.cells[root] = true
				}
				return
			}
			arr := u.Elem().Underlying().(*types.Array)
			name, sort := sc.elemHeap(arr.Elem())
			eff.heap(name, sort)
		}
	case *ssa.Global:
		et := x.Type().(*types.Pointer).Elem()
		eff.heap("G."+sanitize(x.Pkg.Pkg.Name()+"."+x.Name()), sc.sortOf(et))
	default:
		// opaque pointer
		pt, ok := v.Type().Underlying().(*types.Pointer)
		if !ok {
			eff.setAll(nil)
			return
		}
		et := pt.Elem()
		if _, isStruct := et.Underlying().(*types.Struct); isStruct {
			e.objectEffects(sc, et, eff)
			return
		}
		cn, cs := sc.cellHeap(et)
		eff.heap(cn, cs)
		if _, isFV := v.(*ssa.FreeVar); isFV {
			return
		}
		en, es := sc.elemHeap(et)
		eff.heap(en, es)
		for _, fc := range e.fieldsOfType(et) {
			name, sort := sc.fieldHeap(fc.st, fc.idx)
			eff.heap(name, sort)
		}
	}
}

func localRoot(v ssa.Value) *ssa.Alloc {
	for {
		switch x := v.(type) {
		case *ssa.Alloc:
			if !x.Heap {
				return x
			}
			return nil
		case *ssa.FieldAddr:
			v = x.X
		case *ssa.IndexAddr:
			if _, ok := x.X.Type().Underlying().(*types.Pointer); ok {
				v = x.X
			} else {
				return nil
			}
		default:
			return nil
		}
	}
}

func (e *Engine) objectEffects(sc *FnCtx, et types.Type, eff *Effects) {
	switch u := et.Underlying().(type) {
	case *types.Struct:
		for i := 0; i < u.NumFields(); i++ {
			name, sort := sc.fieldHeap(et, i)
			eff.heap(name, sort)
		}
	case *types.Array:
		name, sort := sc.elemHeap(u.Elem())
		eff.heap(name, sort)
	default:
		name, sort := sc.cellHeap(et)
		eff.heap(name, sort)
	}
}

func (e *Engine) mapEffects(sc *FnCtx, mt types.Type, eff *Effects) {
	dn, vn, ln, _, _ := sc.mapHeaps(mt)
	eff.heap(dn, sc.heapSorts[dn])
	eff.heap(vn, sc.heapSorts[vn])
	eff.heap(ln, sc.heapSorts[ln])
}

func (e *Engine) instrEffects(sc *FnCtx, fn *ssa.Function, in ssa.Instruction, eff *Effects, depth int, local bool, fr *Frame) {
	switch x := in.(type) {
	case *ssa.Store:
		e.storeEffects(sc, x.Addr, eff, local)
	case *ssa.Alloc:
		if x.Heap {
			eff.heap("alloc", allocSort)
			e.objectEffects(sc, x.Type().(*types.Pointer).Elem(), eff)
		} else if local {
			// a local declared inside the loop is re-initialised by its Alloc; nothing to havoc
		}
	case *ssa.MapUpdate:
		e.mapEffects(sc, x.Map.Type(), eff)
	case *ssa.MakeMap:
		eff.heap("alloc", allocSort)
		e.mapEffects(sc, x.Type(), eff)
	case *ssa.MakeSlice:
		eff.heap("alloc", allocSort)
		name, sort := sc.elemHeap(x.Type().Underlying().(*types.Slice).Elem())
		eff.heap(name, sort)
	case *ssa.MakeChan, *ssa.MakeInterface:
		eff.heap("alloc", allocSort)
	case *ssa.Convert:
		if sl, ok := x.Type().Underlying().(*types.Slice); ok && isString(x.X.Type()) {
			eff.heap("alloc", allocSort)
			name, sort := sc.elemHeap(sl.Elem())
			eff.heap(name, sort)
		}
	case *ssa.Range:
		if _, ok := x.X.Type().Underlying().(*types.Map); ok {
			ord := 0
			n := 0
			for _, b := range fn.Blocks {
				for _, i2 := range b.Instrs {
					if r, ok := i2.(*ssa.Range); ok {
						n++
						if r == x {
							ord = n
						}
					}
				}
			}
			_ = ord
		}
	case *ssa.Next:
		if r, ok := x.Iter.(*ssa.Range); ok {
			// ghost name must match Frame.rangeInit (ranges numbered in source order)
			for i, r2 := range rangesInSourceOrder(fn) {
				if r2 == r {
					eff.ranges[fmt.Sprintf("visited.%s.", sanitize(fn.Name()))+fmt.Sprint(i+1)] = true
				}
			}
		}
	case *ssa.Send:
		eff.ghost["sent"] = true
		et := x.Chan.Type().Underlying().(*types.Chan).Elem()
		eff.ghost["lastsent."+sortTag(sc.sortOf(et))] = true
		eff.sorts["lastsent."+sortTag(sc.sortOf(et))] = "(Array Int " + sc.sortOf(et) + ")"
	case *ssa.Select:
		eff.ghost["sent"] = true
		eff.ghost["received"] = true
		for _, s := range x.States {
			if s.Dir == types.RecvOnly {
				et := s.Chan.Type().Underlying().(*types.Chan).Elem()
				eff.ghost["lastreceived."+sortTag(sc.sortOf(et))] = true
				eff.sorts["lastreceived."+sortTag(sc.sortOf(et))] = "(Array Int " + sc.sortOf(et) + ")"
			}
			if s.Dir == types.SendOnly {
				et := s.Chan.Type().Underlying().(*types.Chan).Elem()
				eff.ghost["lastsent."+sortTag(sc.sortOf(et))] = true
				eff.sorts["lastsent."+sortTag(sc.sortOf(et))] = "(Array Int " + sc.sortOf(et) + ")"
			}
		}
	case *ssa.UnOp:
		if x.Op == token.ARROW {
			eff.ghost["received"] = true
			et := x.X.Type().Underlying().(*types.Chan).Elem()
			eff.ghost["lastreceived."+sortTag(sc.sortOf(et))] = true
			eff.sorts["lastreceived."+sortTag(sc.sortOf(et))] = "(Array Int " + sc.sortOf(et) + ")"
		}
	case *ssa.Call:
		if _, isBuiltin := x.Common().Value.(*ssa.Builtin); !isBuiltin {
			eff.ghost["calls"] = true
		}
		e.callEffects(sc, fn, x.Common(), eff, depth, fr)
	case *ssa.Defer:
		eff.ghost["calls"] = true
		e.callEffects(sc, fn, x.Common(), eff, depth, fr)
	case *ssa.Go:
		eff.ghost["calls"] = true
		// the spawned call itself is not modelled
	}
}

func (e *Engine) callEffects(sc *FnCtx, fn *ssa.Function, cc *ssa.CallCommon, eff *Effects, depth int, fr *Frame) {
	if cc.IsInvoke() {
		// receiver built by MakeInterface in the same function (possibly passed as a parameter
		// of an inlined frame): known dynamic type
		if t := dynTypeOf(cc.Value, fr); t != nil {
			if m := e.prog.LookupMethod(t, cc.Method.Pkg(), cc.Method.Name()); m != nil && m.Blocks != nil {
				e.staticCalleeEffects(sc, m, eff, depth)
				return
			}
		}
		pk := ""
		if cc.Method.Pkg() != nil {
			pk = cc.Method.Pkg().Path()
		}
		if e.invokeModel(cc.Method.FullName()) != nil {
			if ef := invokeModelEffects[cc.Method.FullName()]; ef != nil {
				ef(e, sc, cc, eff)
			}
			return
		}
		if isPureLibPkg(pk) || cc.Method.FullName() == "(error).Error" {
			return
		}
		if ct := e.ifaceContract(cc); ct != nil {
			all := false
			for _, cl := range ct.clauses("modifies") {
				for _, l := range cl.Locs {
					if l.Op == "ident" && l.Name == "everything" {
						all = true
					}
				}
			}
			if !all {
				eff.heap("alloc", allocSort)
				return
			}
			eff.setAll(ct.Preserves)
			return
		}
		eff.setAll(nil)
		return
	}
	switch callee := cc.Value.(type) {
	case *ssa.Builtin:
		switch callee.Name() {
		case "append":
			eff.heap("alloc", allocSort)
			if sl, ok := cc.Args[0].Type().Underlying().(*types.Slice); ok {
				name, sort := sc.elemHeap(sl.Elem())
				eff.heap(name, sort)
			}
		case "copy":
			if sl, ok := cc.Args[0].Type().Underlying().(*types.Slice); ok {
				name, sort := sc.elemHeap(sl.Elem())
				eff.heap(name, sort)
			}
		case "delete":
			e.mapEffects(sc, cc.Args[0].Type(), eff)
		}
		return
	case *ssa.Function:
		if callee.Blocks == nil || !e.inScope(callee) {
			if externalModels[callee.String()] == nil && e.contractOf(callee) == nil {
				pk := ""
				if callee.Pkg != nil {
					pk = callee.Pkg.Pkg.Path()
				} else if callee.Object() != nil && callee.Object().Pkg() != nil {
					pk = callee.Object().Pkg().Path()
				}
				if isPureLibPkg(pk) && !isReadOnlyLibPkg(pk) {
					// may write what its arguments point to (see Frame.havocPointee)
					for _, a := range cc.Args {
						e.pointeeEffects(sc, a, eff)
					}
				}
			}
		}
		e.staticCalleeEffects(sc, callee, eff, depth)
		return
	case *ssa.MakeClosure:
		e.staticCalleeEffects(sc, callee.Fn.(*ssa.Function), eff, depth)
		return
	}
	// a function value the executing frame knows statically (e.g. the closure passed to Each)
	if fr != nil {
		if v, ok := fr.vals[cc.Value]; ok && v.Fn != nil {
			e.staticCalleeEffects(sc, v.Fn.Fn, eff, depth)
			return
		}
		if ld, ok := cc.Value.(*ssa.UnOp); ok {
			// load of a parameter cell: f := param; f(...)
			if al, ok := ld.X.(*ssa.Alloc); ok {
				if pv, ok := fr.vals[al]; ok && pv.Addr != nil && pv.Addr.Kind == akLocal && !storedInLoopOrTwice(fn, al) {
					for _, p := range fn.Params {
						if p.Name() == al.Comment {
							if av, ok := fr.vals[p]; ok && av.Fn != nil {
								e.staticCalleeEffects(sc, av.Fn.Fn, eff, depth)
								return
							}
						}
					}
				}
			}
		}
	}
	// function value: the contract of its function type, if there is one
	pf := fn
	for pf.Pkg == nil && pf.Parent() != nil {
		pf = pf.Parent()
	}
	if pf.Pkg != nil {
		if tc := e.typeContract(cc.Value.Type(), pf.Pkg.Pkg); tc != nil {
			eff.merge(e.typeContractEffects(tc, cc.Value.Type(), pf.Pkg.Pkg))
			return
		}
	}
	eff.setAll(nil)
}

// typeContractEffects: heap components named by a function-type contract's modifies clauses.
func (e *Engine) typeContractEffects(tc *Contract, t types.Type, pkg *types.Package) *Effects {
	eff := newEffects()
	sig, ok := t.Underlying().(*types.Signature)
	if !ok {
		eff.setAll(nil)
		return eff
	}
	sc := e.newFnCtx(nil, tc)
	st := newState()
	var args []Val
	for i := 0; i < sig.Params().Len(); i++ {
		pt := sig.Params().At(i).Type()
		term := sc.smt.declare(fmt.Sprintf("p.arg%d", i), sc.sortOf(pt))
		args = append(args, Val{T: pt, Term: term})
	}
	self := Val{T: t, Term: sc.smt.declare("self", "Int")}
	env := sc.typeEnv(tc, pkg, sig, self, args, st)
	ms, err := env.modSet(tc)
	if err != nil {
		eff.setAll(nil)
		return eff
	}
	if ms.all {
		eff.setAll(tc.Preserves)
	}
	for _, h := range ms.names() {
		eff.heap(h, sc.heapSorts[h])
	}
	for g := range ms.ghost {
		eff.ghost[g] = true
	}
	eff.heap("alloc", allocSort)
	return eff
}

func (e *Engine) staticCalleeEffects(sc *FnCtx, callee *ssa.Function, eff *Effects, depth int) {
	if ct := e.contractOf(callee); ct != nil && !ct.Inline && ct.hasCallSpec() {
		ce := e.contractEffects(callee, ct)
		eff.merge(ce)
		return
	}
	if callee.Blocks != nil && e.inScope(callee) {
		if depth > maxInlineDepth {
			eff.setAll(nil)
			return
		}
		eff.merge(e.fnEffects(callee, depth+1))
		return
	}
	if m := externalModels[callee.String()]; m != nil {
		if ef := externalEffects[callee.String()]; ef != nil {
			ef(e, sc, callee, eff)
		}
		return
	}
	pk := ""
	if callee.Pkg != nil {
		pk = callee.Pkg.Pkg.Path()
	} else if callee.Object() != nil && callee.Object().Pkg() != nil {
		pk = callee.Object().Pkg().Path()
	}
	if isPureLibPkg(pk) {
		eff.heap("alloc", allocSort)
		return
	}
	eff.setAll(nil)
}

// pointeeEffects: the heap components an external callee may write through argument a (one level, by type).
func (e *Engine) pointeeEffects(sc *FnCtx, a ssa.Value, eff *Effects) {
	t := a.Type()
	if mi, ok := a.(*ssa.MakeInterface); ok {
		t = mi.X.Type()
	}
	switch u := t.Underlying().(type) {
	case *types.Pointer:
		et := u.Elem()
		if st0, ok := et.Underlying().(*types.Struct); ok {
			for i := 0; i < st0.NumFields(); i++ {
				eff.heap(sc.fieldHeap(et, i))
			}
			return
		}
		if arr, ok := et.Underlying().(*types.Array); ok {
			eff.heap(sc.elemHeap(arr.Elem()))
			return
		}
		eff.heap(sc.cellHeap(et))
		eff.heap(sc.elemHeap(et))
		for _, fc := range e.fieldsOfType(et) {
			eff.heap(sc.fieldHeap(fc.st, fc.idx))
		}
	case *types.Slice:
		eff.heap(sc.elemHeap(u.Elem()))
	}
}

// contractEffects: heap components named by a contract's modifies clauses.
func (e *Engine) contractEffects(callee *ssa.Function, ct *Contract) *Effects {
	eff := newEffects()
	sc := e.newFnCtx(callee, ct)
	fr := sc.newFrame(callee, nil, nil)
	st := newState()
	fr.entry = st
	var args []Val
	for _, p := range callee.Params {
		args = append(args, fr.opaqueInput(p, p.Type(), "p."+p.Name()))
	}
	env := sc.calleeEnv(callee, nil, args, st)
	env.fr = fr
	ms, err := env.modSet(ct)
	if err != nil {
		eff.setAll(nil)
		return eff
	}
	if ms.all {
		eff.all = false
		eff.allSrc = nil
		eff.setAll(ct.Preserves)
	}
	for _, h := range ms.names() {
		eff.heap(h, sc.heapSorts[h])
	}
	for g := range ms.ghost {
		eff.ghost[g] = true
	}
	if !ct.Pure {
		eff.heap("alloc", allocSort)
	}
	return eff
}

func (fr *Frame) pkg() *types.Package {
	p := fr.fn
	for p.Pkg == nil && p.Parent() != nil {
		p = p.Parent()
	}
	if p.Pkg != nil {
		return p.Pkg.Pkg
	}
	return nil
}

// checkCaptures: capture invariants of a closure are proved where the closure is created.
func (fr *Frame) checkCaptures(fv *FnVal, st *State, reach string, pos token.Pos) {
	c := fr.c
	ct := c.eng.contractOf(fv.Fn)
	if ct == nil {
		return
	}
	for _, cl := range ct.clauses("captures") {
		env := c.calleeEnv(fv.Fn, fv, nil, st)
		for _, cj := range conjuncts(cl.Expr) {
			t, err := env.evalBool(cj)
			if err != nil {
				fr.bindFailure(cl, err)
				continue
			}
			fr.oblige("capture", shortFn(fv.Fn)+" captures "+cj.String(), reach, t, pos)
		}
	}
}

// globalInitOnlyNonNil: the package-level variable is stored only by the package initialiser,
// with the result of errors.New / fmt.Errorf (non-nil), and nowhere else in the module.
func (e *Engine) globalInitOnlyNonNil(g *ssa.Global) bool {
	if v, ok := e.globalNN[g]; ok {
		return v
	}
	ok := false
	stores := 0
	for _, fn := range e.fnByKey {
		for _, b := range fn.Blocks {
			for _, in := range b.Instrs {
				if s, isStore := in.(*ssa.Store); isStore && s.Addr == g {
					stores = 99
				}
			}
		}
	}
	if init := g.Pkg.Func("init"); init != nil {
		for _, b := range init.Blocks {
			for _, in := range b.Instrs {
				if s, isStore := in.(*ssa.Store); isStore && s.Addr == g {
					stores++
					if call, isCall := s.Val.(*ssa.Call); isCall {
						if callee := call.Common().StaticCallee(); callee != nil {
							switch callee.String() {
							case "errors.New", "fmt.Errorf":
								ok = true
							}
						}
					}
				}
			}
		}
	}
	res := ok && stores == 1
	e.globalNN[g] = res
	return res
}

// ifaceContract: contract attached to an interface method, keyed "(Iface).Method" in the
// contract file of the package that declares the interface.
func (e *Engine) ifaceContract(cc *ssa.CallCommon) *Contract {
	n, ok := cc.Value.Type().(*types.Named)
	if !ok || n.Obj().Pkg() == nil {
		return nil
	}
	if ct := e.lib.Contracts[n.Obj().Pkg().Path()+"::("+n.Obj().Name()+")."+cc.Method.Name()]; ct != nil {
		return ct
	}
	// method promoted from an embedded interface: look it up under the declaring interface
	if cc.Method.Pkg() != nil {
		for k, ct := range e.lib.Contracts {
			if strings.HasPrefix(k, cc.Method.Pkg().Path()+"::(") && strings.HasSuffix(k, ")."+cc.Method.Name()) {
				// the key names an interface of the method's package that declares this method
				in := strings.TrimSuffix(strings.TrimPrefix(k, cc.Method.Pkg().Path()+"::("), ")."+cc.Method.Name())
				if tn, ok := cc.Method.Pkg().Scope().Lookup(in).(*types.TypeName); ok {
					if it, ok := tn.Type().Underlying().(*types.Interface); ok {
						for i := 0; i < it.NumMethods(); i++ {
							if it.Method(i) == cc.Method {
								return ct
							}
						}
					}
				}
			}
		}
	}
	return nil
}

// storedInLoopOrTwice: the parameter cell is assigned anywhere other than its initial store.
func storedInLoopOrTwice(fn *ssa.Function, al *ssa.Alloc) bool {
	n := 0
	for _, b := range fn.Blocks {
		for _, in := range b.Instrs {
			if s, ok := in.(*ssa.Store); ok && s.Addr == al {
				n++
			}
		}
	}
	return n > 1
}

// dynTypeOf: the dynamic type of an interface value when it is statically evident.
func dynTypeOf(v ssa.Value, fr *Frame) types.Type {
	switch x := v.(type) {
	case *ssa.MakeInterface:
		return x.X.Type()
	case *ssa.UnOp:
		if al, ok := x.X.(*ssa.Alloc); ok && fr != nil {
			// parameter cell of an inlined frame
			for _, p := range fr.fn.Params {
				if p.Name() == al.Comment && !storedInLoopOrTwice(fr.fn, al) {
					if av, ok := fr.vals[p]; ok && av.Dyn != nil {
						return av.Dyn.T
					}
				}
			}
		}
	case *ssa.Parameter:
		if fr != nil {
			if av, ok := fr.vals[x]; ok && av.Dyn != nil {
				return av.Dyn.T
			}
		}
	}
	return nil
}

// timeType returns time.Time.
func (e *Engine) timeType() types.Type {
	for _, p := range e.prog.AllPackages() {
		if p.Pkg.Path() == "time" {
			return p.Pkg.Scope().Lookup("Time").Type()
		}
	}
	return nil
}


// unboundContracts: contracts of this module whose key names no function of a loaded package (a renamed or deleted
// function, or a mistyped receiver): such a contract is silently not applied, so it is reported.
func (e *Engine) unboundContracts() []string {
	var out []string
	for k, ct := range e.lib.Contracts {
		i := strings.Index(k, "::")
		if i < 0 {
			continue
		}
		path, rel := k[:i], k[i+2:]
		if !strings.HasPrefix(path, modulePath) || strings.HasSuffix(rel, "$bound") {
			continue
		}
		sp := e.pkgByPath[path]
		if sp == nil {
			continue // package not loaded for this property
		}
		if _, ok := e.fnByKey[k]; ok {
			continue
		}
		// an interface method contract: (Iface).Method
		if strings.HasPrefix(rel, "(") {
			if j := strings.Index(rel, ")."); j > 0 {
				tn := strings.TrimPrefix(rel[1:j], "*")
				if obj := sp.Pkg.Scope().Lookup(tn); obj != nil {
					if _, isIface := obj.Type().Underlying().(*types.Interface); isIface {
						continue
					}
				}
			}
		}
		_ = ct
		out = append(out, k)
	}
	sort.Strings(out)
	return out
}
