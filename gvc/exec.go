package main

// Forward symbolic execution of one SSA function (NaiveForm): loops cut at headers, states
// merged at joins, one obligation per check.

import (
	"fmt"
	"go/ast"
	"go/constant"
	"go/token"
	"go/types"
	"sort"
	"strings"

	"golang.org/x/tools/go/ssa"
)

type Obligation struct {
	Name   string
	Kind   string
	Fn     string
	Pos    string
	Reach  string
	Goal   string
	UpTo   int
	Text   string
	Cover  bool // cover obligation: must NOT be unsat
	Result SolverResult
	Values []string // terms to ask a model for
	Ctx    *FnCtx
	Label  string
	Relaxed bool // a model exists only for the query without quantified assumptions
	Scope  int
}

type FnCtx struct {
	loopHeadHavoc    bool
	privateCells     []frozenCell // captured variables that never leave the function: they survive `modifies everything`
	frozenCells      []frozenCell // captured variables assigned exactly once: they survive `modifies everything`
	eng              *Engine
	fn               *ssa.Function
	contract         *Contract
	smt              *Script
	floatsIEEE       bool
	inReturnDefers   int // >0 while the deferred calls of a normally returning function are executed
	callsiteMatched  map[*Clause]bool // callsite clauses that applied to at least one call of the function
	excludedAxioms   map[string]bool // lemma proofs: axioms that must not be used (the one being proved)
	heapSorts        map[string]string
	initialHeaps     map[string]string
	fieldIDs         map[string]int
	fnConsts         map[string]*ssa.Function
	closureIDs       map[*FnVal]string
	closureByTerm    map[string]*FnVal
	ghostSorts       map[string]string
	unsupportedNotes []string
	obls             []*Obligation
	nextCell         int
	strLits          map[string]string
	oblCount         map[string]int
	assumedExternal  map[string]bool
	contractsUsed    map[string]bool
	inlineStack      []*ssa.Function
	witness          []string // terms whose model values describe the entry state
	witnessNames     map[string]string
	noSafety         bool
	specDeclared     map[string]bool
	axiomsAdded      map[string]bool
	retCell          map[*Frame]bool
	ghostTypes       map[string]types.Type
	bytesOfString    map[string]string
	typedSeen        map[string]bool
	topMS            *ModSet // modifiable locations of the function under verification (loop frame invariants)
	topEntry         *State
	constArrays      map[string]string
	witnesses        []Witness
	parentState      *State
	sqAxiom          bool
}

type Frame struct {
	c        *FnCtx
	fn       *ssa.Function
	vals     map[ssa.Value]Val
	entry    *State
	params   []Val
	depth    int
	parent   *Frame
	contract *Contract
	fnval    *FnVal
	label    string // "" for the top frame, "inl:callee" chain otherwise
	loops    *LoopInfo
	reach    map[*ssa.BasicBlock]string
	edgeIn   map[*ssa.BasicBlock][]edgeIn
	rets     []retInfo
	entryReach string
	iterGhost map[*ssa.Range]string
	defers    []*deferred
	iterFv    *FnVal // the closure passed to this (iterator) frame, when it carries iter invariants
	iterCaller *Frame
	baseScope  int
	loopEntryState map[*Loop]*State
	selectSplits   map[*ssa.BasicBlock]selectSplit // select statements executed so far, by block (case splits of step obligations)
	curCallBlock   *ssa.BasicBlock // block of the call being executed (prev() in callsite clauses)
	loopHeadState  map[*Loop]*State // the state assumed at the head of an arbitrary iteration (prev() in step clauses)
	loopScope  map[*Loop]int
}

type edgeIn struct {
	from *ssa.BasicBlock
	cond string
	st   *State
}

type retInfo struct {
	cond    string
	st      *State
	results []Val
}

func (e *Engine) newFnCtx(fn *ssa.Function, ct *Contract) *FnCtx {
	c := &FnCtx{eng: e, fn: fn, contract: ct, smt: newScript(), heapSorts: map[string]string{},
		initialHeaps: map[string]string{}, fieldIDs: map[string]int{}, fnConsts: map[string]*ssa.Function{},
		closureIDs: map[*FnVal]string{}, closureByTerm: map[string]*FnVal{}, ghostSorts: map[string]string{},
		strLits: map[string]string{}, oblCount: map[string]int{}, assumedExternal: map[string]bool{},
		contractsUsed: map[string]bool{}, witnessNames: map[string]string{}, specDeclared: map[string]bool{},
		axiomsAdded: map[string]bool{}, ghostTypes: map[string]types.Type{}, bytesOfString: map[string]string{}, typedSeen: map[string]bool{}, constArrays: map[string]string{}}
	if ct != nil && ct.Floats == "ieee" {
		c.floatsIEEE = true
	}
	if ct != nil && ct.NoSafety {
		c.noSafety = true
	}
	return c
}

func shortFn(fn *ssa.Function) string {
	if fn.Pkg != nil {
		return fn.Pkg.Pkg.Name() + "." + fn.RelString(fn.Pkg.Pkg)
	}
	if fn.Parent() != nil {
		return shortFn(fn.Parent()) + "$" + fn.Name()
	}
	return fn.String()
}

// obligation creation ----------------------------------------------------------------------

func (fr *Frame) oblige(kind, text, reach, goal string, pos token.Pos) *Obligation {
	c := fr.c
	if goal == "true" || reach == "false" {
		return nil
	}
	if kind == "safety" && c.noSafety {
		return nil
	}
	fname := shortFn(c.fn)
	if fr.label != "" {
		fname += ">" + fr.label
	}
	base := fname + "/" + kind + "/" + text
	c.oblCount[base]++
	o := &Obligation{Name: fmt.Sprintf("%s#%d", base, c.oblCount[base]), Kind: kind, Fn: shortFn(c.fn),
		Reach: reach, Goal: goal, UpTo: len(c.smt.items), Text: text, Ctx: c, Scope: c.smt.curScope}
	if pos.IsValid() {
		p := c.eng.fset.Position(pos)
		o.Pos = fmt.Sprintf("%s:%d", strings.TrimPrefix(p.Filename, "/repo/"), p.Line)
	}
	c.obls = append(c.obls, o)
	return o
}

// srcText returns the source text of the smallest expression enclosing pos.
func (e *Engine) srcText(pos token.Pos, want string) string {
	if !pos.IsValid() {
		return "?"
	}
	tf := e.fset.File(pos)
	if tf == nil {
		return "?"
	}
	f := e.astFiles[tf.Name()]
	if f == nil {
		return "?"
	}
	var best ast.Node
	ast.Inspect(f, func(n ast.Node) bool {
		if n == nil {
			return false
		}
		if n.Pos() <= pos && pos < n.End() {
			switch n.(type) {
			case *ast.IndexExpr, *ast.SliceExpr, *ast.SelectorExpr, *ast.StarExpr, *ast.CallExpr, *ast.BinaryExpr, *ast.TypeAssertExpr, *ast.UnaryExpr, *ast.AssignStmt, *ast.IncDecStmt, *ast.Ident, *ast.CompositeLit, *ast.RangeStmt:
				ok := true
				switch want {
				case "index":
					_, ok = n.(*ast.IndexExpr)
				case "slice":
					_, ok = n.(*ast.SliceExpr)
				case "sel":
					switch n.(type) {
					case *ast.SelectorExpr, *ast.StarExpr:
					default:
						ok = false
					}
				case "binary":
					switch n.(type) {
					case *ast.BinaryExpr, *ast.AssignStmt, *ast.IncDecStmt:
					default:
						ok = false
					}
				case "call":
					_, ok = n.(*ast.CallExpr)
				}
				if ok {
					best = n
				}
			}
			return true
		}
		return false
	})
	if best == nil {
		return "?"
	}
	src := e.sources[tf.Name()]
	a, b := tf.Offset(best.Pos()), tf.Offset(best.End())
	if a < 0 || b > len(src) || a >= b {
		return "?"
	}
	s := strings.Join(strings.Fields(string(src[a:b])), " ")
	if len(s) > 90 {
		s = s[:90] + "…"
	}
	return s
}

// running a function ------------------------------------------------------------------------------

func (c *FnCtx) newFrame(fn *ssa.Function, parent *Frame, fv *FnVal) *Frame {
	fr := &Frame{c: c, fn: fn, vals: map[ssa.Value]Val{}, parent: parent, fnval: fv,
		reach: map[*ssa.BasicBlock]string{}, edgeIn: map[*ssa.BasicBlock][]edgeIn{}, iterGhost: map[*ssa.Range]string{},
		baseScope: c.smt.curScope, loopScope: map[*Loop]int{}, loopEntryState: map[*Loop]*State{}, loopHeadState: map[*Loop]*State{}, selectSplits: map[*ssa.BasicBlock]selectSplit{}}
	if parent != nil {
		fr.depth = parent.depth + 1
		l := shortFn(fn)
		if parent.label != "" {
			fr.label = parent.label + ">" + l
		} else {
			fr.label = "inl:" + l
		}
	}
	fr.contract = c.eng.contractOf(fn)
	fr.loops = c.eng.loopInfo(fn)
	return fr
}

// execBody executes fn's body from state st under reach condition r0 with the given
// arguments; it returns the merged state at return, the results and the reach condition there.
func (fr *Frame) execBody(st *State, r0 string, args []Val) (*State, []Val, string) {
	c := fr.c
	fn := fr.fn
	fr.entry = st.clone()
	fr.entryReach = r0
	fr.params = args
	for i, p := range fn.Params {
		if i < len(args) {
			v := args[i]
			v.T = p.Type()
			fr.vals[p] = v
		}
	}
	if fr.fnval != nil {
		for i, fv := range fn.FreeVars {
			if i < len(fr.fnval.Bindings) {
				fr.vals[fv] = fr.fnval.Bindings[i]
			}
		}
	}
	if len(fn.Blocks) == 0 {
		return st, nil, r0
	}
	order := fr.loops.order
	fr.edgeIn[fn.Blocks[0]] = []edgeIn{{nil, r0, st}}
	for _, b := range order {
		ins := fr.edgeIn[b]
		if len(ins) == 0 {
			continue // unreachable
		}
		var cur *State
		var reach string
		if lp := fr.loops.byHeader[b]; lp != nil {
			cur, reach = fr.enterLoop(lp, ins)
		} else {
			var conds []string
			var inc []incoming
			for _, in := range ins {
				conds = append(conds, in.cond)
				inc = append(inc, incoming{in.cond, in.st})
			}
			reach = c.smt.define("R", "Bool", or(conds...))
			cur = c.mergeStates(inc)
		}
		fr.reach[b] = reach
		if reach == "false" {
			continue
		}
		c.smt.curScope = fr.scopeOf(b)
		fr.execBlock(b, cur, reach, ins)
	}
	c.smt.curScope = fr.baseScope
	// merge returns
	if len(fr.rets) == 0 {
		return st, nil, "false"
	}
	var conds []string
	var inc []incoming
	for _, r := range fr.rets {
		conds = append(conds, r.cond)
		inc = append(inc, incoming{r.cond, r.st})
	}
	out := c.mergeStates(inc)
	nres := len(fr.rets[0].results)
	results := make([]Val, nres)
	for i := 0; i < nres; i++ {
		vals := make([]Val, len(fr.rets))
		for j, r := range fr.rets {
			vals[j] = r.results[i]
		}
		results[i] = c.mergeVals(inc, vals)
	}
	return out, results, c.smt.define("Rret", "Bool", or(conds...))
}

// scopeOf: the scope of the innermost loop whose body (header excluded) contains b.
func (fr *Frame) scopeOf(b *ssa.BasicBlock) int {
	var best *Loop
	for _, lp := range fr.loops.loops {
		if lp.body[b] && lp.header != b {
			if best == nil || len(lp.body) < len(best.body) {
				best = lp
			}
		}
	}
	if best == nil {
		return fr.baseScope
	}
	if id, ok := fr.loopScope[best]; ok {
		return id
	}
	clean := true
	for blk := range best.body {
		if blk == best.header {
			continue
		}
		for _, s := range blk.Succs {
			if !best.body[s] {
				clean = false
			}
		}
	}
	id := fr.c.smt.newScope(fr.scopeOf(best.header), clean)
	fr.loopScope[best] = id
	return id
}

func (fr *Frame) addEdge(from, to *ssa.BasicBlock, cond string, st *State) {
	if cond == "false" {
		return
	}
	if lp := fr.loops.byHeader[to]; lp != nil && lp.body[from] {
		// back edge: the invariant must be re-established
		fr.checkInvariants(lp, st, cond, "inv-preserve", from)
		return
	}
	fr.edgeIn[to] = append(fr.edgeIn[to], edgeIn{from, cond, st})
}

func (fr *Frame) execBlock(b *ssa.BasicBlock, st *State, reach string, ins []edgeIn) {
	c := fr.c
	for _, instr := range b.Instrs {
		switch x := instr.(type) {
		case *ssa.Phi:
			// value of a phi: ite over the incoming edges
			var vals []Val
			var inc []incoming
			for _, in := range ins {
				idx := -1
				for i, p := range b.Preds {
					if p == in.from {
						idx = i
					}
				}
				if idx < 0 {
					continue
				}
				vals = append(vals, fr.val(x.Edges[idx], in.st))
				inc = append(inc, incoming{in.cond, in.st})
			}
			if len(vals) == 0 {
				fr.vals[x] = Val{T: x.Type(), Term: c.smt.declareFresh("phi", c.sortOf(x.Type()))}
			} else {
				v := c.mergeVals(inc, vals)
				v.T = x.Type()
				fr.vals[x] = v
			}
		case *ssa.If:
			cond := c.termOf(fr.val(x.Cond, st))
			cn := c.smt.define("c", "Bool", cond)
			fr.addEdge(b, b.Succs[0], and(reach, cn), st)
			fr.addEdge(b, b.Succs[1], and(reach, not(cn)), st.clone())
			return
		case *ssa.Jump:
			fr.addEdge(b, b.Succs[0], reach, st)
			return
		case *ssa.Return:
			var res []Val
			for _, r := range x.Results {
				res = append(res, fr.val(r, st))
			}
			fr.rets = append(fr.rets, retInfo{reach, st, res})
			return
		case *ssa.Panic:
			mayPanic := fr.contract != nil && fr.contract.MayPanic
			if !mayPanic && !isCompilerSelectPanic(x) {
				fr.oblige("safety", "unreachable panic "+c.eng.srcText(x.Pos(), "call"), reach, "false", x.Pos())
			}
			return
		default:
			fr.execInstr(instr, st, reach)
		}
	}
}

func isCompilerSelectPanic(p *ssa.Panic) bool {
	if mi, ok := p.X.(*ssa.MakeInterface); ok {
		if k, ok := mi.X.(*ssa.Const); ok && k.Value != nil && k.Value.Kind() == constant.String {
			return strings.Contains(constant.StringVal(k.Value), "blocking select matched no case")
		}
	}
	return false
}

// val returns the engine-level value of an SSA value in a state.
func (fr *Frame) val(v ssa.Value, st *State) Val {
	c := fr.c
	if x, ok := fr.vals[v]; ok {
		return x
	}
	switch x := v.(type) {
	case *ssa.Const:
		return c.constVal(x)
	case *ssa.Function:
		return Val{T: x.Type(), Fn: &FnVal{Fn: x}}
	case *ssa.Global:
		// a global is the address of a package-level variable
		return Val{T: x.Type(), Addr: &Addr{Kind: akGlobal, Global: x, RootT: x.Type().(*types.Pointer).Elem()}}
	case *ssa.Builtin:
		return Val{T: x.Type()}
	case *ssa.FreeVar:
		// unbound free variable (closure verified on its own): pointer to a captured cell
		return fr.opaqueInput(x, x.Type(), "fv."+x.Name())
	case *ssa.Parameter:
		return fr.opaqueInput(x, x.Type(), "p."+x.Name())
	}
	// value defined in a block not executed (unreachable) or unsupported
	t := c.smt.declareFresh("undef", c.sortOf(v.Type()))
	return Val{T: v.Type(), Term: t}
}

// opaqueInput creates the symbolic value of a parameter or free variable.
func (fr *Frame) opaqueInput(key ssa.Value, t types.Type, name string) Val {
	c := fr.c
	term := c.smt.declare(sanitize(name), c.sortOf(t))
	c.smt.assume(c.typeFacts(t, term), "")
	v := Val{T: t, Term: term}
	if p, ok := t.Underlying().(*types.Pointer); ok {
		if _, isStruct := p.Elem().Underlying().(*types.Struct); !isStruct {
			if _, isFV := key.(*ssa.FreeVar); isFV {
				// captured variables are always heap cells
				ref := c.smt.declare(sanitize(name)+".ref", "Int")
				c.smt.assume("(> "+ref+" 0)", "captured variable cell")
				c.smt.assume(sel(c.heapGet(fr.entry, "alloc", allocSort), ref), "captured variable cell is allocated")
				v = Val{T: t, Addr: &Addr{Kind: akCell, Ref: ref, RootT: p.Elem()}}
				if freeVarWriteOnce(key.(*ssa.FreeVar)) {
					// the captured variable is assigned once, before the closure was created: it keeps its value
					hn, hs := c.cellHeap(p.Elem())
					cur := sel(c.heapGet(fr.entry, hn, hs), ref)
					val := c.smt.define("frozen", c.sortOf(p.Elem()), cur)
					c.frozenCells = append(c.frozenCells, frozenCell{hn, hs, ref, val})
				}
			}
		}
	}
	fr.vals[key] = v
	return v
}

func (c *FnCtx) constVal(k *ssa.Const) Val {
	t := k.Type()
	if k.Value == nil {
		return Val{T: t, Term: c.zero(t)}
	}
	switch u := t.Underlying().(type) {
	case *types.Basic:
		switch {
		case u.Info()&types.IsBoolean != 0:
			if constant.BoolVal(k.Value) {
				return Val{T: t, Term: "true"}
			}
			return Val{T: t, Term: "false"}
		case u.Info()&types.IsInteger != 0:
			s := k.Value.ExactString()
			if strings.HasPrefix(s, "-") {
				s = "(- " + s[1:] + ")"
			}
			return Val{T: t, Term: s}
		case u.Info()&types.IsFloat != 0:
			f, _ := constant.Float64Val(k.Value)
			return Val{T: t, Term: c.floatLit(f)}
		case u.Info()&types.IsString != 0:
			return Val{T: t, Term: c.strLit(constant.StringVal(k.Value))}
		}
	}
	return Val{T: t, Term: c.zero(t)}
}

// strLit declares a string literal with its length and bytes.
func (c *FnCtx) strLit(s string) string {
	if s == "" {
		return "str_empty"
	}
	if n, ok := c.strLits[s]; ok {
		return n
	}
	name := fmt.Sprintf("strlit%d", len(c.strLits)+1)
	c.smt.declare(name, "Str")
	c.smt.assume(eq(app("slen", name), fmt.Sprint(len(s))), fmt.Sprintf("literal %q", s))
	if len(s) <= 64 {
		for i := 0; i < len(s); i++ {
			c.smt.assume(eq(app("sbyte", name, fmt.Sprint(i)), fmt.Sprint(s[i])), "")
		}
	}
	// distinct from the other literals
	for other, on := range c.strLits {
		_ = other
		c.smt.assume(not(eq(name, on)), "")
	}
	c.strLits[s] = name
	return name
}

// loops ---------------------------------------------------------------------------------------

type Loop struct {
	header  *ssa.BasicBlock
	body    map[*ssa.BasicBlock]bool
	ordinal int
	minPos  token.Pos
}

type LoopInfo struct {
	byHeader map[*ssa.BasicBlock]*Loop
	loops    []*Loop
	order    []*ssa.BasicBlock
}

func (e *Engine) loopInfo(fn *ssa.Function) *LoopInfo {
	if li, ok := e.loopCache[fn]; ok {
		return li
	}
	li := &LoopInfo{byHeader: map[*ssa.BasicBlock]*Loop{}}
	e.loopCache[fn] = li
	if len(fn.Blocks) == 0 {
		return li
	}
	for _, b := range fn.Blocks {
		for _, s := range b.Succs {
			if s.Dominates(b) {
				lp := li.byHeader[s]
				if lp == nil {
					lp = &Loop{header: s, body: map[*ssa.BasicBlock]bool{s: true}}
					li.byHeader[s] = lp
					li.loops = append(li.loops, lp)
				}
				// collect body: blocks reaching b without passing through s
				var stack []*ssa.BasicBlock
				if !lp.body[b] {
					lp.body[b] = true
					stack = append(stack, b)
				}
				for len(stack) > 0 {
					x := stack[len(stack)-1]
					stack = stack[:len(stack)-1]
					for _, p := range x.Preds {
						if !lp.body[p] {
							lp.body[p] = true
							stack = append(stack, p)
						}
					}
				}
			}
		}
	}
	for _, lp := range li.loops {
		lp.minPos = token.Pos(1 << 60)
		for b := range lp.body {
			for _, in := range b.Instrs {
				if p := in.Pos(); p.IsValid() && p < lp.minPos {
					lp.minPos = p
				}
			}
		}
	}
	sort.SliceStable(li.loops, func(i, j int) bool {
		a, b := li.loops[i], li.loops[j]
		if a.minPos != b.minPos {
			return a.minPos < b.minPos
		}
		return len(a.body) > len(b.body)
	})
	for i, lp := range li.loops {
		lp.ordinal = i + 1
	}
	// reverse postorder over forward edges. Successors that leave the innermost loop of a block
	// are visited first in the DFS, so that in the reverse order the loop body precedes the code
	// after the loop (obligations inside a loop then do not see assumptions made after it).
	innermost := func(b *ssa.BasicBlock) *Loop {
		var best *Loop
		for _, lp := range li.loops {
			if lp.body[b] && (best == nil || len(lp.body) < len(best.body)) {
				best = lp
			}
		}
		return best
	}
	seen := map[*ssa.BasicBlock]bool{}
	var post []*ssa.BasicBlock
	var dfs func(b *ssa.BasicBlock)
	dfs = func(b *ssa.BasicBlock) {
		seen[b] = true
		lp := innermost(b)
		var leaving, staying []*ssa.BasicBlock
		for _, s := range b.Succs {
			if s.Dominates(b) {
				continue // back edge
			}
			if lp != nil && !lp.body[s] {
				leaving = append(leaving, s)
			} else {
				staying = append(staying, s)
			}
		}
		for _, s := range append(leaving, staying...) {
			if !seen[s] {
				dfs(s)
			}
		}
		post = append(post, b)
	}
	dfs(fn.Blocks[0])
	for i := len(post) - 1; i >= 0; i-- {
		li.order = append(li.order, post[i])
	}
	return li
}

// enterLoop checks the invariant on entry, havocs what the loop may modify and assumes the
// invariant for an arbitrary iteration.
func (fr *Frame) enterLoop(lp *Loop, ins []edgeIn) (*State, string) {
	c := fr.c
	var conds []string
	var inc []incoming
	for _, in := range ins {
		conds = append(conds, in.cond)
		inc = append(inc, incoming{in.cond, in.st})
	}
	r0 := c.smt.define("Rloop", "Bool", or(conds...))
	s0 := c.mergeStates(inc)
	fr.loopEntryState[lp] = s0
	fr.checkInvariants(lp, s0, r0, "inv-init", nil)
	s1 := s0.clone()
	eff := c.eng.loopEffects(fr.fn, lp, fr)
	preAlloc := c.heapGet(s0, "alloc", allocSort)
	if eff.all {
		// at a loop head nothing the loop may assign survives -- private variables included
		c.loopHeadHavoc = true
		c.havocAllBut(s1, eff.preserved(), eff.heaps)
		c.loopHeadHavoc = false
		for _, h := range sortedKeys(eff.heaps) {
			if _, ok := s1.heaps[h]; ok && h != "alloc" {
				c.havocHeap(s1, h)
			}
		}
	} else {
		for _, h := range sortedKeys(eff.heaps) {
			if _, known := c.heapSorts[h]; !known {
				if srt := eff.sorts[h]; srt != "" {
					c.heapSorts[h] = srt
				}
			}
			if h == "alloc" {
				continue
			}
			c.havocHeap(s1, h)
		}
		if eff.heaps["alloc"] {
			c.havocHeap(s1, "alloc")
		}
	}
	for al := range eff.cells {
		v, ok := fr.vals[al]
		if !ok || v.Addr == nil || v.Addr.Kind != akLocal {
			continue
		}
		t := v.Addr.RootT
		nv := c.smt.declareFresh("h."+al.Comment, c.sortOf(t))
		c.smt.assume(c.typeFacts(t, nv), "")
		s1.cells[v.Addr.CellID] = Val{T: t, Term: nv}
		c.closedHeap(s1, t, nv, 0) // a reference held in a local is nil or allocated
		if al.Comment == "rangeindex" {
			// compiler-generated index of `for i := range slice`: starts at -1, is incremented
			// by one while the incremented value is below the length read before the loop
			c.smt.assume(app(">=", nv, "(- 1)"), "range index is at least -1")
			for _, in := range lp.header.Instrs {
				if b, ok := in.(*ssa.BinOp); ok && b.Op == token.LSS {
					if add, ok := b.X.(*ssa.BinOp); ok && add.Op == token.ADD {
						if ld, ok := add.X.(*ssa.UnOp); ok && ld.X == al {
							if lv, ok := fr.vals[b.Y]; ok && lv.Term != "" {
								c.smt.assume(app("<", nv, app("imax", lv.Term, "0")), "range index is below the length")
							} else if k, ok := b.Y.(*ssa.Const); ok {
								c.smt.assume(app("<", nv, app("imax", c.constVal(k).Term, "0")), "range index is below the length")
							}
						}
					}
				}
			}
		}
	}
	// ghost state modified in the loop (a ghost variable not touched before the loop still has
	// its initial value there and must be forgotten all the same)
	for g := range eff.ghost {
		if _, ok := s1.ghost[g]; ok {
			continue
		}
		switch {
		case g == "sent" || g == "received" || g == "calls":
			c.ghostSorts[g] = "(Array Int Int)"
		case eff.sorts[g] != "":
			c.ghostSorts[g] = eff.sorts[g]
		}
		if _, ok := c.ghostSorts[g]; ok {
			s1.ghost[g] = c.ghostInit(g)
		}
	}
	// lastresult(Name, k) survives a loop whose body makes no call named Name -- decidable when every call of the body
	// is a builtin, a library call or a call of a function under contract (nothing is executed inline)
	keepLastres := map[string]bool{}
	if !eff.all {
		closedBody := true
		called := map[int]bool{}
		for blk := range lp.body {
			for _, in := range blk.Instrs {
				var cc *ssa.CallCommon
				switch x := in.(type) {
				case *ssa.Call:
					cc = x.Common()
				case *ssa.Go, *ssa.Defer:
					closedBody = false
				}
				if cc == nil {
					continue
				}
				if _, isBuiltin := cc.Value.(*ssa.Builtin); isBuiltin {
					continue
				}
				if f := cc.StaticCallee(); f != nil && !cc.IsInvoke() {
					if c.eng.inScope(f) && f.Blocks != nil {
						if ct := c.eng.contractOf(f); ct == nil || ct.Inline || !ct.hasCallSpec() {
							closedBody = false // executed inline: its own calls are not visible here
						}
					}
				} else if !cc.IsInvoke() {
					closedBody = false // a call through a function value
				}
				called[callNameID(fr.callName(cc, in.Pos()))] = true
				if q := fr.callQualName(in.Pos()); q != "" {
					called[callNameID(q)] = true
				}
			}
		}
		if closedBody {
			for g := range s1.ghost {
				if strings.HasPrefix(g, "lastres.") {
					var id, k int
					if n, _ := fmt.Sscanf(g, "lastres.%d.%d", &id, &k); n == 2 && !called[id] {
						keepLastres[g] = true
					}
				}
			}
		}
	}
	for g := range s1.ghost {
		if strings.HasPrefix(g, "visited.") {
			if eff.ranges[g] {
				s1.ghost[g] = c.smt.declareFresh(g, c.ghostSorts[g])
			}
		} else if eff.all || eff.ghost[g] || (strings.HasPrefix(g, "lastres.") && !keepLastres[g]) {
			s1.ghost[g] = c.smt.declareFresh(g, c.ghostSorts[g])
		}
	}
	if !eff.all {
		for _, h := range sortedKeys(eff.heaps) {
			if t := c.frameInv(s1, h); t != "" {
				c.smt.assume(implies(r0, t), "loop frame invariant for "+h)
			}
		}
	}
	postAlloc := c.heapGet(s1, "alloc", allocSort)
	if postAlloc != preAlloc {
		c.smt.assume(fmt.Sprintf("(forall ((r Int)) (! (=> (select %s r) (select %s r)) :pattern ((select %s r)) :pattern ((select %s r))))", preAlloc, postAlloc, postAlloc, preAlloc), "allocation only grows")
	}
	// assume the invariant
	for _, it := range fr.iterInvariants(lp, s1) {
		if it.err != nil {
			fr.bindFailure(it.cl, it.err)
			continue
		}
		c.smt.assume(implies(r0, it.term), "iter invariant: "+it.cl.Text)
	}
	if fr.contract != nil {
		for _, cl := range fr.contract.loopClauses("invariant", lp.ordinal) {
			env := fr.env(s1)
			env.loopEntry = s0
			env.rangeAllocs = fr.rangeAllocsFor(lp)
			t, err := env.evalBool(cl.Expr)
			if err != nil {
				fr.bindFailure(cl, err)
				continue
			}
			c.smt.assume(implies(r0, t), fmt.Sprintf("loop %d invariant: %s", lp.ordinal, cl.Text))
		}
	}
	fr.loopHeadState[lp] = s1.clone()
	return s1, r0
}

// frameInv: locations outside the function's modifies set (and allocated at entry) hold their
// entry values. Inductive loop invariant added automatically for every heap a loop havocs.
func (c *FnCtx) frameInv(st *State, h string) string {
	if c.topMS == nil || c.topMS.all || c.topMS.whole[h] || h == "alloc" || strings.HasPrefix(h, "G.") {
		return ""
	}
	srt, ok := c.heapSorts[h]
	if !ok || !strings.HasPrefix(srt, "(Array Int ") {
		return ""
	}
	cur := c.heapGet(st, h, srt)
	entry := c.heapGet(c.topEntry, h, srt)
	if cur == entry {
		return ""
	}
	may := []string{not(sel(c.heapGet(c.topEntry, "alloc", allocSort), "r"))}
	for _, p := range c.topMS.heaps[h] {
		may = append(may, p("r"))
	}
	for _, r := range c.topMS.refs[h] {
		may = append(may, eq("r", r))
	}
	return fmt.Sprintf("(forall ((r Int)) (! (=> (not %s) (= (select %s r) (select %s r))) :pattern ((select %s r))))", or(may...), cur, entry, cur)
}

func (fr *Frame) checkFrameInvs(lp *Loop, st *State, reach, kind string) {
	c := fr.c
	eff := c.eng.loopEffects(fr.fn, lp, fr)
	if eff.all {
		return
	}
	for _, h := range sortedKeys(eff.heaps) {
		if t := c.frameInv(st, h); t != "" {
			pos := token.NoPos
			if len(lp.header.Instrs) > 0 {
				pos = lp.header.Instrs[0].Pos()
			}
			fr.oblige(kind, fmt.Sprintf("loop %d: frame of %s", lp.ordinal, h), reach, t, pos)
		}
	}
}

type iterInv struct {
	cl   *Clause
	text string
	term string
	err  error
}

// iterInvariants evaluates the iter invariants of the closure passed to an iterator frame
// (Counters.Each etc.) at loop lp: `done(n, t)` is the set of entries already handed to the
// closure, `iter` the map being iterated.
func (fr *Frame) iterInvariants(lp *Loop, st *State) []iterInv {
	if fr.iterFv == nil {
		return nil
	}
	c := fr.c
	ct := c.eng.contractOf(fr.iterFv.Fn)
	if ct == nil || len(fr.fn.Params) == 0 {
		return nil
	}
	// the ranges of the iterator: outer (larger loop) and inner
	rangeOf := func(l *Loop) *ssa.Next {
		for _, in := range l.header.Instrs {
			if n, ok := in.(*ssa.Next); ok {
				return n
			}
		}
		return nil
	}
	var outer, inner *Loop
	for _, l := range fr.loops.loops {
		if rangeOf(l) == nil {
			continue
		}
		if outer == nil || len(l.body) > len(outer.body) {
			if outer != nil && inner == nil {
				inner = outer
			}
			outer = l
		} else if inner == nil {
			inner = l
		}
	}
	if outer == nil || inner == nil || (lp != outer && lp != inner) {
		return nil
	}
	on, in := rangeOf(outer), rangeOf(inner)
	or1, ok1 := on.Iter.(*ssa.Range)
	ir1, ok2 := in.Iter.(*ssa.Range)
	if !ok1 || !ok2 {
		return nil
	}
	recv := fr.vals[fr.fn.Params[0]]
	mt, ok := recv.T.Underlying().(*types.Map)
	if !ok {
		return nil
	}
	innerT := mt.Elem()
	vis1 := st.ghost[fr.iterGhost[or1]]
	var out []iterInv
	env := c.calleeEnv(fr.iterFv.Fn, fr.iterFv, nil, st)
	env.old = fr.iterCallerEntry()
	env.parentEntry = fr.parentEntryOf(fr.iterFv.Fn)
	env.names["iter"] = recv
	env.outerFr = fr.parent
	m := c.termOf(recv)
	hasIn := func(n, t string) string {
		hasO, inner := c.mapRead(st, recv.T, m, n)
		hasI, _ := c.mapRead(st, innerT, inner, t)
		return and(hasO, hasI)
	}
	if lp == outer {
		env.done = func(n, t string) string { return and(sel(vis1, n), hasIn(n, t)) }
	} else {
		// current outer key: Extract #1 of the outer Next
		var kcur string
		for _, ref := range *on.Referrers() {
			if ex, ok := ref.(*ssa.Extract); ok && ex.Index == 1 {
				if v, ok := fr.vals[ex]; ok {
					kcur = c.termOf(v)
				}
			}
		}
		vis2, ok := st.ghost[fr.iterGhost[ir1]]
		if kcur == "" || !ok {
			return nil
		}
		env.done = func(n, t string) string {
			return or(and(sel(vis1, n), not(eq(n, kcur)), hasIn(n, t)), and(eq(n, kcur), sel(vis2, t)))
		}
	}
	for _, cl := range ct.clauses("iterinv") {
		for _, cj := range conjuncts(cl.Expr) {
			t, err := env.evalBool(cj)
			out = append(out, iterInv{cl: cl, text: cj.String(), term: t, err: err})
		}
	}
	if lp == inner {
		// invariants of the inner loop only: iterKey / iterInner name the outer key and its map
		for _, ref := range *on.Referrers() {
			if ex, ok := ref.(*ssa.Extract); ok {
				if v, ok := fr.vals[ex]; ok {
					switch ex.Index {
					case 1:
						env.names["iterKey"] = v
					case 2:
						env.names["iterInner"] = v
					}
				}
			}
		}
		for _, cl := range ct.clauses("iterinner") {
			for _, cj := range conjuncts(cl.Expr) {
				t, err := env.evalBool(cj)
				out = append(out, iterInv{cl: cl, text: cj.String(), term: t, err: err})
			}
		}
	}
	return out
}

func (fr *Frame) iterCallerEntry() *State {
	f := fr
	for f.parent != nil {
		f = f.parent
	}
	return f.entry
}

// selectSplit: the case index of an executed select statement. A step obligation of a loop whose body contains the
// select is proved once per case (under idx == k): after the select the engine merges the cases' states into
// if-then-else terms, which quantifier instantiation does not see through; under a fixed case they collapse.
type selectSplit struct {
	idx      string
	n        int
	blocking bool
}

func (fr *Frame) checkInvariants(lp *Loop, st *State, reach, kind string, from *ssa.BasicBlock) {
	fr.checkFrameInvs(lp, st, reach, kind)
	for _, it := range fr.iterInvariants(lp, st) {
		if it.err != nil {
			fr.bindFailure(it.cl, it.err)
			continue
		}
		pos := token.NoPos
		if len(lp.header.Instrs) > 0 {
			pos = lp.header.Instrs[0].Pos()
		}
		fr.oblige(kind, fmt.Sprintf("iter %s: %s", shortFn(fr.iterFv.Fn), it.text), reach, it.term, pos)
	}
	if fr.contract == nil {
		return
	}
	for _, cl := range fr.contract.loopClauses("invariant", lp.ordinal) {
		for _, cj := range conjuncts(cl.Expr) {
			env := fr.env(st)
			env.loopEntry = fr.loopEntryState[lp]
			env.rangeAllocs = fr.rangeAllocsFor(lp)
			t, err := env.evalBool(cj)
			if err != nil {
				fr.bindFailure(cl, err)
				continue
			}
			pos := token.NoPos
			if len(lp.header.Instrs) > 0 {
				pos = lp.header.Instrs[0].Pos()
			}
			fr.oblige(kind, fmt.Sprintf("loop %d: %s", lp.ordinal, cj.String()), reach, t, pos)
		}
	}
	if kind != "inv-preserve" {
		return
	}
	// step clauses: a relation between the state at the head of this iteration (prev(e)) and the state at its end
	for _, cl := range fr.contract.loopClauses("step", lp.ordinal) {
		for _, cj := range conjuncts(cl.Expr) {
			env := fr.env(st)
			env.loopEntry = fr.loopEntryState[lp]
			env.loopHead = fr.loopHeadState[lp]
			env.rangeAllocs = fr.rangeAllocsFor(lp)
			t, err := env.evalBool(cj)
			if err != nil {
				fr.bindFailure(cl, err)
				continue
			}
			pos := token.NoPos
			if len(lp.header.Instrs) > 0 {
				pos = lp.header.Instrs[0].Pos()
			}
			var split *selectSplit
			for blk, sp := range fr.selectSplits {
				if lp.body[blk] {
					sp := sp
					if split == nil || sp.idx < split.idx {
						split = &sp
					}
				}
			}
			if split == nil {
				fr.oblige("step", fmt.Sprintf("loop %d step: %s", lp.ordinal, cj.String()), reach, t, pos)
				continue
			}
			lo := 0
			if !split.blocking {
				lo = -1
			}
			for k := lo; k < split.n; k++ {
				fr.oblige("step", fmt.Sprintf("loop %d step [select case %d]: %s", lp.ordinal, k, cj.String()), and(reach, eq(split.idx, intLit(int64(k)))), t, pos)
			}
		}
	}
}

// rangeAllocsFor: the compiler-generated counters of `for … range slice` loops, by name: "rangeindex" is the
// counter of lp itself, "rangeindex<N>" the counter of the loop with source ordinal N.
func (fr *Frame) rangeAllocsFor(lp *Loop) map[string]*ssa.Alloc {
	m := map[string]*ssa.Alloc{}
	li := fr.c.eng.loopInfo(fr.fn)
	for _, l := range li.loops {
		for _, in := range l.header.Instrs {
			if ld, ok := in.(*ssa.UnOp); ok && ld.Op == token.MUL {
				if al, ok := ld.X.(*ssa.Alloc); ok && al.Comment == "rangeindex" {
					m[fmt.Sprintf("rangeindex%d", l.ordinal)] = al
					if l == lp {
						m["rangeindex"] = al
					}
					break
				}
			}
		}
	}
	return m
}

func (fr *Frame) bindFailure(cl *Clause, err error) {
	o := fr.oblige("bind", fmt.Sprintf("%s %s", cl.Kind, cl.Text), "true", "false", token.NoPos)
	if o != nil {
		o.Result = SolverResult{Status: "bind-error", Output: err.Error()}
	}
}
