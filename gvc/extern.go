package main

// Assumed contracts of dependency functions (DESIGN §5.1). Everything here is an assumption
// and is reported as such in the evidence whenever it is used.

import (
	"fmt"
	"go/token"
	"go/types"
	"strings"

	"golang.org/x/tools/go/ssa"
)

type extModel func(fr *Frame, callee *ssa.Function, args []Val, resT types.Type, st *State, reach string, pos token.Pos) Val
type invModel func(fr *Frame, recv Val, args []Val, resT types.Type, st *State, reach string, pos token.Pos) Val

var externalModels = map[string]extModel{}
var externalEffects = map[string]func(e *Engine, sc *FnCtx, callee *ssa.Function, eff *Effects){}
var invokeModels = map[string]invModel{}
var invokeModelEffects = map[string]func(e *Engine, sc *FnCtx, cc *ssa.CallCommon, eff *Effects){}

func (e *Engine) invokeModel(name string) invModel { return invokeModels[name] }

var pureLibPkgs = []string{"strings", "strconv", "bytes", "math", "fmt", "errors", "unicode", "unicode/utf8", "time", "hash/adler32",
	"regexp", "math/rand", "math/bits", "github.com/sirupsen/logrus", "sync/atomic", "sync", "context", "sort", "os", "io", "net",
	"golang.org/x/time/rate", "github.com/tilinna/clock", "path", "net/url", "encoding/json", "github.com/ash2k/stager/wait", "runtime",
	"github.com/spf13/viper", "net/http", "log", "encoding/base64", "html", "github.com/cenkalti/backoff", "github.com/json-iterator/go",
	"google.golang.org/protobuf/proto", "compress/zlib", "github.com/pierrec/lz4/v4", "hash/fnv", "reflect", "io/ioutil", "bufio", "crypto/tls", "text/template"}

// packages whose functions only read their arguments
var readOnlyLibPkgs = []string{"strings", "strconv", "math", "errors", "unicode", "time", "context", "github.com/sirupsen/logrus", "fmt", "path",
	"net/url", "hash", "os", "runtime", "html", "encoding/base64", "log", "bytes", "regexp", "github.com/tilinna/clock", "net"}

func isReadOnlyLibPkg(p string) bool {
	for _, q := range readOnlyLibPkgs {
		if p == q || strings.HasPrefix(p, q+"/") {
			return true
		}
	}
	return false
}

// havocPointee forgets what v points to (one level): the variable or field behind an address, the fields of the
// struct behind a reference, the elements of a slice, the pointer boxed in an interface value.
func (fr *Frame) havocPointee(v Val, st *State, depth int) {
	c := fr.c
	if depth > 1 || v.T == nil {
		return
	}
	if v.Dyn != nil {
		fr.havocPointee(v.Dyn.V, st, depth)
		return
	}
	switch u := v.T.Underlying().(type) {
	case *types.Pointer:
		et := u.Elem()
		if v.Addr != nil {
			if v.Addr.Kind == akElem && v.Addr.Idx == "" {
				name, sort := c.elemHeap(v.Addr.RootT)
				c.heapSet(st, name, sort, sto(c.heapGet(st, name, sort), v.Addr.Ref, c.smt.declareFresh("extw.arr", arrayElemSort(sort))))
				return
			}
			c.store(st, v.Addr, fr.havocVal(et, "extw"))
			return
		}
		if st0, ok := et.Underlying().(*types.Struct); ok {
			ref := c.termOf(v)
			for i := 0; i < st0.NumFields(); i++ {
				name, sort := c.fieldHeap(et, i)
				nv := fr.havocVal(st0.Field(i).Type(), "extw")
				c.heapSet(st, name, sort, sto(c.heapGet(st, name, sort), ref, c.termOf(nv)))
			}
			return
		}
		if v.Term != "" {
			c.ptrStore(st, v.Term, et, c.termOf(fr.havocVal(et, "extw")))
		}
	case *types.Slice:
		if v.Term == "" {
			return
		}
		name, sort := c.elemHeap(u.Elem())
		c.heapSet(st, name, sort, sto(c.heapGet(st, name, sort), app("sl_base", v.Term), c.smt.declareFresh("extw.arr", arrayElemSort(sort))))
	}
}

func isPureLibPkg(p string) bool {
	for _, q := range pureLibPkgs {
		if p == q || strings.HasPrefix(p, q+"/") {
			return true
		}
	}
	return false
}

func (fr *Frame) external(callee *ssa.Function, args []Val, resT types.Type, st *State, reach string, pos token.Pos) Val {
	c := fr.c
	name := callee.String()
	if m := externalModels[name]; m != nil {
		c.assumedExternal[name+" (assumed contract, extern.go)"] = true
		return m(fr, callee, args, resT, st, reach, pos)
	}
	pk := ""
	if callee.Pkg != nil {
		pk = callee.Pkg.Pkg.Path()
	} else if callee.Object() != nil && callee.Object().Pkg() != nil {
		pk = callee.Object().Pkg().Path()
	}
	if isPureLibPkg(pk) {
		if isReadOnlyLibPkg(pk) {
			c.assumedExternal[name+" (result unconstrained; assumed not to write gostatsd's memory)"] = true
		} else {
			// a library function may write through the pointers, slices and boxed pointers it is handed
			// (json.Unmarshal(b, &v), io.ReadFull(r, buf), atomic.AddUint64(&x, 1), sort.Slice(s, ...))
			c.assumedExternal[name+" (result unconstrained; may write what its arguments point to, nothing else of gostatsd's memory)"] = true
			for _, a := range args {
				fr.havocPointee(a, st, 0)
			}
		}
		// results that are references are fresh or nil; allocation may grow
		return fr.havocVal(resT, "ext."+callee.Name())
	}
	c.assumedExternal[name+" (unknown dependency: all heaps havoc'd)"] = true
	c.havocAll(st)
	return fr.havocVal(resT, "ext."+callee.Name())
}

func tuple(resT types.Type, vs ...Val) Val {
	if len(vs) == 1 {
		v := vs[0]
		v.T = resT
		return v
	}
	return Val{T: resT, Tuple: vs}
}

func init() {
	// --- context: the channel Done() returns belongs to package context (ctx_chan): it is never a channel that
	// gostatsd code made (a receive on it is not a receive on one of gostatsd's own channels) -----------------
	invokeModels["(context.Context).Done"] = func(fr *Frame, recv Val, args []Val, resT types.Type, st *State, reach string, pos token.Pos) Val {
		c := fr.c
		r := fr.havocVal(resT, "ctxdone")
		c.smt.declareFun("ctx_chan", []string{"Int"}, "Bool")
		c.smt.assume(or(eq(c.termOf(r), "0"), app("ctx_chan", c.termOf(r))), "ctx.Done(): nil or a channel owned by package context")
		c.assumedExternal["(context.Context).Done (interface method, assumed not to touch gostatsd's heap; its channel is not one gostatsd made)"] = true
		return r
	}
	// --- viper: a configuration read is a function of the viper object and the key. (Writes to the same object
	// between two reads -- SetDefault, Set -- are not tracked: the contracts that use viper*() state what a function
	// hands on of the configuration it reads, in functions that read after they have written.) ---------------------
	for _, g := range []struct{ m, fn string }{{"GetDuration", "viper_get_int"}, {"GetInt", "viper_get_int"}, {"GetBool", "viper_get_bool"}, {"GetString", "viper_get_str"}} {
		g := g
		externalModels["(*github.com/spf13/viper.Viper)."+g.m] = func(fr *Frame, callee *ssa.Function, args []Val, resT types.Type, st *State, reach string, pos token.Pos) Val {
			c := fr.c
			declareViperFns(c)
			c.assumedExternal["viper."+g.m+": a function of the viper object and the key (writes between reads are not tracked)"] = true
			t := app(g.fn, c.termOf(args[0]), c.termOf(args[1]))
			if g.m == "GetInt" || g.m == "GetDuration" {
				c.smt.assume(rangeFact(resT, t), "")
			}
			return Val{T: resT, Term: t}
		}
	}
	// --- logrus: Panic* never returns; reaching it is a crash ------------------------------------
	for _, n := range []string{"Panic", "Panicf", "Panicln", "Fatal", "Fatalf", "Fatalln"} {
		name := "(github.com/sirupsen/logrus.FieldLogger)." + n
		invokeModels[name] = func(fr *Frame, recv Val, args []Val, resT types.Type, st *State, reach string, pos token.Pos) Val {
			fr.oblige("safety", "unreachable "+fr.c.eng.srcText(pos, "call"), reach, "false", pos)
			fr.c.smt.assume(not(reach), "logger.Panic/Fatal does not return")
			return fr.havocVal(resT, "panic")
		}
	}
	// --- time: instants as nanoseconds since the zero time (ghost function time_nanos); Duration
	// arithmetic is assumed not to overflow ---------------------------------------------------
	nanos := func(c *FnCtx, t string) string {
		c.smt.declareFun("time_nanos", []string{c.sortOf(c.eng.timeType())}, "Int")
		return app("time_nanos", t)
	}
	freshTime := func(fr *Frame, resT types.Type, n string) Val {
		c := fr.c
		r := fr.havocVal(resT, "time")
		c.smt.assume(eq(nanos(c, r.Term), n), "time model")
		return r
	}
	externalModels["(time.Time).Add"] = func(fr *Frame, callee *ssa.Function, args []Val, resT types.Type, st *State, reach string, pos token.Pos) Val {
		c := fr.c
		return freshTime(fr, resT, app("+", nanos(c, c.termOf(args[0])), c.termOf(args[1])))
	}
	externalModels["(time.Time).Sub"] = func(fr *Frame, callee *ssa.Function, args []Val, resT types.Type, st *State, reach string, pos token.Pos) Val {
		c := fr.c
		return Val{T: resT, Term: c.smt.define("tsub", "Int", app("-", nanos(c, c.termOf(args[0])), nanos(c, c.termOf(args[1]))))}
	}
	externalModels["(time.Time).Truncate"] = func(fr *Frame, callee *ssa.Function, args []Val, resT types.Type, st *State, reach string, pos token.Pos) Val {
		c := fr.c
		n, d := nanos(c, c.termOf(args[0])), c.termOf(args[1])
		return freshTime(fr, resT, ite(app(">", d, "0"), app("-", n, app("mod", n, d)), n))
	}
	externalModels["(time.Time).UnixNano"] = func(fr *Frame, callee *ssa.Function, args []Val, resT types.Type, st *State, reach string, pos token.Pos) Val {
		c := fr.c
		c.smt.declareFun("time_unix_epoch", nil, "Int")
		return Val{T: resT, Term: c.smt.define("unixnano", "Int", wrapTo(types.Typ[types.Int64], app("-", nanos(c, c.termOf(args[0])), "time_unix_epoch")))}
	}
	cmpTime := func(op string) extModel {
		return func(fr *Frame, callee *ssa.Function, args []Val, resT types.Type, st *State, reach string, pos token.Pos) Val {
			c := fr.c
			return Val{T: resT, Term: app(op, nanos(c, c.termOf(args[0])), nanos(c, c.termOf(args[1])))}
		}
	}
	externalModels["(time.Duration).Nanoseconds"] = func(fr *Frame, callee *ssa.Function, args []Val, resT types.Type, st *State, reach string, pos token.Pos) Val {
		return Val{T: resT, Term: fr.c.termOf(args[0])} // int64(d)
	}
	externalModels["(time.Time).After"] = cmpTime(">")
	externalModels["(time.Time).Before"] = cmpTime("<")
	// --- math ---------------------------------------------------------------------------------
	externalModels["math.IsNaN"] = func(fr *Frame, callee *ssa.Function, args []Val, resT types.Type, st *State, reach string, pos token.Pos) Val {
		c := fr.c
		if c.floatsIEEE {
			return Val{T: resT, Term: app("fp.isNaN", c.termOf(args[0]))}
		}
		return Val{T: resT, Term: "false"}
	}
	externalModels["math.IsInf"] = func(fr *Frame, callee *ssa.Function, args []Val, resT types.Type, st *State, reach string, pos token.Pos) Val {
		c := fr.c
		if c.floatsIEEE {
			x, s := c.termOf(args[0]), c.termOf(args[1])
			return Val{T: resT, Term: and(app("fp.isInfinite", x), or(eq(s, "0"), and(app(">", s, "0"), app("fp.isPositive", x)), and(app("<", s, "0"), app("fp.isNegative", x))))}
		}
		return Val{T: resT, Term: "false"}
	}
	externalModels["math.Inf"] = func(fr *Frame, callee *ssa.Function, args []Val, resT types.Type, st *State, reach string, pos token.Pos) Val {
		c := fr.c
		if c.floatsIEEE {
			return Val{T: resT, Term: ite(app(">=", c.termOf(args[0]), "0"), "(_ +oo 11 53)", "(_ -oo 11 53)")}
		}
		c.smt.declareFun("real_inf", []string{"Int"}, "Real")
		c.assumedExternal["math.Inf as a real larger than every value compared with it is NOT modelled (uninterpreted)"] = true
		return Val{T: resT, Term: app("real_inf", ite(app(">=", c.termOf(args[0]), "0"), "1", "(- 1)"))}
	}
	for _, mm := range []struct{ name, op string }{{"math.Max", ">="}, {"math.Min", "<="}} {
		mm := mm
		externalModels[mm.name] = func(fr *Frame, callee *ssa.Function, args []Val, resT types.Type, st *State, reach string, pos token.Pos) Val {
			c := fr.c
			x, y := c.termOf(args[0]), c.termOf(args[1])
			if c.floatsIEEE {
				// NaN and signed-zero cases of math.Max / math.Min are not modelled: unconstrained result
				return fr.havocVal(resT, "minmax")
			}
			return Val{T: resT, Term: ite(app(mm.op, x, y), x, y)}
		}
	}
	externalModels["math.Floor"] = func(fr *Frame, callee *ssa.Function, args []Val, resT types.Type, st *State, reach string, pos token.Pos) Val {
		c := fr.c
		if c.floatsIEEE {
			return Val{T: resT, Term: app("fp.roundToIntegral", "RTN", c.termOf(args[0]))}
		}
		return Val{T: resT, Term: app("to_real", app("to_int", c.termOf(args[0])))}
	}
	externalModels["math.Mod"] = func(fr *Frame, callee *ssa.Function, args []Val, resT types.Type, st *State, reach string, pos token.Pos) Val {
		c := fr.c
		x, y := c.termOf(args[0]), c.termOf(args[1])
		if c.floatsIEEE {
			return Val{T: resT, Term: app("fp.rem", x, y)}
		}
		// x - y*trunc(x/y) (mathematical reals)
		q := app("/", x, y)
		tr := fmt.Sprintf("(ite (>= %s 0.0) (to_int %s) (- (to_int (- %s))))", q, q, q)
		return Val{T: resT, Term: c.smt.define("fmod", "Real", app("-", x, app("*", y, app("to_real", tr))))}
	}
	externalModels["math.Abs"] = func(fr *Frame, callee *ssa.Function, args []Val, resT types.Type, st *State, reach string, pos token.Pos) Val {
		c := fr.c
		x := c.termOf(args[0])
		if c.floatsIEEE {
			return Val{T: resT, Term: app("fp.abs", x)}
		}
		return Val{T: resT, Term: ite(app(">=", x, "0.0"), x, app("-", x))}
	}
	externalModels["math.Sqrt"] = func(fr *Frame, callee *ssa.Function, args []Val, resT types.Type, st *State, reach string, pos token.Pos) Val {
		c := fr.c
		x := c.termOf(args[0])
		if c.floatsIEEE {
			return Val{T: resT, Term: app("fp.sqrt", "RNE", x)}
		}
		c.smt.declareFun("real_sqrt", []string{"Real"}, "Real")
		return Val{T: resT, Term: app("real_sqrt", x)}
	}
	// --- bytes ------------------------------------------------------------------------------------
	externalModels["bytes.IndexByte"] = func(fr *Frame, callee *ssa.Function, args []Val, resT types.Type, st *State, reach string, pos token.Pos) Val {
		c := fr.c
		s := c.termOf(args[0])
		b := c.termOf(args[1])
		name, sort := c.elemHeap(types.Typ[types.Byte])
		h := c.heapGet(st, name, sort)
		r := c.smt.declareFresh("indexbyte", "Int")
		at := func(i string) string { return sel(sel(h, app("sl_base", s)), app("+", app("sl_off", s), i)) }
		c.smt.assume(and(app("<=", "(- 1)", r), app("<", r, app("sl_len", s))), "bytes.IndexByte range")
		c.smt.assume(implies(app(">=", r, "0"), eq(at(r), b)), "bytes.IndexByte hit")
		c.smt.assume(fmt.Sprintf("(forall ((i Int)) (! (=> (and (<= 0 i) (< i (ite (>= %s 0) %s (sl_len %s)))) (not (= %s %s))) :pattern (%s)))", r, r, s, at("i"), b, at("i")), "bytes.IndexByte first occurrence")
		return Val{T: resT, Term: r}
	}
	externalModels["bytes.Equal"] = func(fr *Frame, callee *ssa.Function, args []Val, resT types.Type, st *State, reach string, pos token.Pos) Val {
		c := fr.c
		a, b := c.termOf(args[0]), c.termOf(args[1])
		name, sort := c.elemHeap(types.Typ[types.Byte])
		h := c.heapGet(st, name, sort)
		r := c.smt.declareFresh("bytesequal", "Bool")
		at := func(s, i string) string { return sel(sel(h, app("sl_base", s)), app("+", app("sl_off", s), i)) }
		k := c.smt.declareFresh("bytesdiff", "Int")
		c.smt.assume(implies(r, and(eq(app("sl_len", a), app("sl_len", b)),
			fmt.Sprintf("(forall ((i Int)) (! (=> (and (<= 0 i) (< i (sl_len %s))) (= %s %s)) :pattern (%s)))", a, at(a, "i"), at(b, "i"), at(a, "i")))), "bytes.Equal: true means equal contents")
		c.smt.assume(implies(not(r), or(not(eq(app("sl_len", a), app("sl_len", b))), and(app("<=", "0", k), app("<", k, app("sl_len", a)), not(eq(at(a, k), at(b, k)))))), "bytes.Equal: false means a differing position")
		return Val{T: resT, Term: r}
	}
	externalModels["bytes.Replace"] = func(fr *Frame, callee *ssa.Function, args []Val, resT types.Type, st *State, reach string, pos token.Pos) Val {
		c := fr.c
		// result: a fresh slice (or nil) of unknown contents
		r := fr.havocVal(resT, "bytesreplace")
		al := c.heapGet(st, "alloc", allocSort)
		c.smt.assume(or(eq(app("sl_base", r.Term), "0"), not(sel(al, app("sl_base", r.Term)))), "bytes.Replace returns a copy")
		c.heapSet(st, "alloc", allocSort, sto(al, app("sl_base", r.Term), "true"))
		name, sort := c.elemHeap(types.Typ[types.Byte])
		h := c.heapGet(st, name, sort)
		c.heapSet(st, name, sort, sto(h, app("sl_base", r.Term), c.smt.declareFresh("replaced", "(Array Int Int)")))
		return r
	}
	// --- strconv --------------------------------------------------------------------------------------
	externalModels["strconv.ParseFloat"] = func(fr *Frame, callee *ssa.Function, args []Val, resT types.Type, st *State, reach string, pos token.Pos) Val {
		c := fr.c
		// on nil error any float64, including NaN and ±Inf ("nan", "inf" parse successfully)
		f := fr.havocVal(tFloat, "parsefloat")
		c.smt.declareFun("parsefloat_val", []string{"Str"}, c.floatSort())
		c.smt.declareFun("parsefloat_err", []string{"Str"}, "Int")
		s := c.termOf(args[0])
		c.smt.assume(eq(f.Term, app("parsefloat_val", s)), "ParseFloat is a function of its input")
		errT := app("parsefloat_err", s)
		c.smt.assume(app(">=", errT, "0"), "")
		c.smt.assume(implies(eq(app("slen", s), "0"), not(eq(errT, "0"))), "ParseFloat(\"\") fails")
		tup := resT.(*types.Tuple)
		return Val{T: resT, Tuple: []Val{f, {T: tup.At(1).Type(), Term: errT}}}
	}
	// --- errors / fmt -------------------------------------------------------------------------------------
	nonNilErr := func(fr *Frame, callee *ssa.Function, args []Val, resT types.Type, st *State, reach string, pos token.Pos) Val {
		c := fr.c
		r := c.smt.declareFresh("err", "Int")
		c.smt.assume(app(">", r, "0"), "constructed error is non-nil")
		return Val{T: resT, Term: r}
	}
	externalModels["errors.New"] = nonNilErr
	externalModels["fmt.Errorf"] = nonNilErr
	// --- sync: mutual exclusion is not modelled (no interleavings) ------------------------------------------
	noop := func(fr *Frame, callee *ssa.Function, args []Val, resT types.Type, st *State, reach string, pos token.Pos) Val {
		return fr.havocVal(resT, "noop")
	}
	for _, n := range []string{"(*sync.Mutex).Lock", "(*sync.Mutex).Unlock", "(*sync.RWMutex).Lock", "(*sync.RWMutex).Unlock", "(*sync.RWMutex).RLock", "(*sync.RWMutex).RUnlock",
		"(*sync.WaitGroup).Add", "(*sync.WaitGroup).Done", "(*sync.WaitGroup).Wait"} {
		externalModels[n] = noop
	}
	// --- adler32 -----------------------------------------------------------------------------------------------
	externalModels["hash/adler32.Checksum"] = func(fr *Frame, callee *ssa.Function, args []Val, resT types.Type, st *State, reach string, pos token.Pos) Val {
		c := fr.c
		// a pure function of the byte contents; callers in gostatsd pass []byte(string), so the
		// model is keyed on the string the bytes were copied from when that is known
		c.smt.declareFun("adler32_of_bytes", []string{"Int"}, "Int")
		c.smt.declareFun("adler32_of_str", []string{"Str"}, "Int")
		s := c.termOf(args[0])
		var t string
		if src, ok := c.bytesOfString[app("sl_base", s)]; ok {
			t = app("adler32_of_str", src)
		} else if src, ok := c.bytesOfString[s]; ok {
			t = app("adler32_of_str", src)
		} else {
			t = app("adler32_of_bytes", app("sl_base", s))
			c.assumedExternal["adler32.Checksum on bytes not known to come from a string: keyed on the backing array identity"] = true
		}
		r := c.smt.define("adler", "Int", t)
		c.smt.assume(rangeFact(types.Typ[types.Uint32], r), "adler32.Checksum is a uint32")
		return Val{T: resT, Term: r}
	}
	// --- sort -------------------------------------------------------------------------------------------------------
	sortModel := func(elem types.Type) extModel {
		return func(fr *Frame, callee *ssa.Function, args []Val, resT types.Type, st *State, reach string, pos token.Pos) Val {
			c := fr.c
			s := c.termOf(args[0])
			name, sort := c.elemHeap(elem)
			h := c.heapGet(st, name, sort)
			es := c.sortOf(elem)
			arr := c.smt.declareFresh("sorted", "(Array Int "+es+")")
			oldArr := sel(h, app("sl_base", s))
			lo := app("sl_off", s)
			hi := app("+", app("sl_off", s), app("sl_len", s))
			// outside the slice window nothing changes; inside: sorted, and a permutation of the
			// old contents (expressed through a bijection perm on the window)
			c.smt.assume(fmt.Sprintf("(forall ((i Int)) (! (=> (or (< i %s) (>= i %s)) (= (select %s i) (select %s i))) :pattern ((select %s i))))", lo, hi, arr, oldArr, arr), "sort: outside the window unchanged")
			if isFloat(elem) {
				le := c.floatBin(token.LEQ, sel(arr, "i"), sel(arr, "j"))
				c.smt.assume(fmt.Sprintf("(forall ((i Int) (j Int)) (! (=> (and (<= %s i) (<= i j) (< j %s)) %s) :pattern ((select %s i) (select %s j))))", lo, hi, le, arr, arr), "sort: sorted (NaN-free input assumed for the order to be total)")
			} else if isString(elem) {
				c.smt.declareFun("str_lt", []string{"Str", "Str"}, "Bool")
				c.smt.assume(fmt.Sprintf("(forall ((i Int) (j Int)) (! (=> (and (<= %s i) (<= i j) (< j %s)) (not (str_lt (select %s j) (select %s i)))) :pattern ((select %s i) (select %s j))))", lo, hi, arr, arr, arr, arr), "sort: sorted")
			}
			perm := c.smt.fresh("perm")
			c.smt.declareFun(perm, []string{"Int"}, "Int")
			inv := c.smt.fresh("perminv")
			c.smt.declareFun(inv, []string{"Int"}, "Int")
			c.smt.assume(fmt.Sprintf("(forall ((i Int)) (! (=> (and (<= %[1]s i) (< i %[2]s)) (and (<= %[1]s (%[3]s i)) (< (%[3]s i) %[2]s) (= (%[4]s (%[3]s i)) i) (= (select %[5]s i) (select %[6]s (%[3]s i))))) :pattern ((%[3]s i))))", lo, hi, perm, inv, arr, oldArr), "sort: permutation")
			c.smt.assume(fmt.Sprintf("(forall ((i Int)) (! (=> (and (<= %[1]s i) (< i %[2]s)) (and (<= %[1]s (%[4]s i)) (< (%[4]s i) %[2]s) (= (%[3]s (%[4]s i)) i))) :pattern ((%[4]s i))))", lo, hi, perm, inv), "sort: permutation (inverse)")
			c.heapSet(st, name, sort, sto(h, app("sl_base", s), arr))
			return Val{T: resT}
		}
	}
	externalModels["sort.Float64s"] = sortModel(tFloat)
	externalModels["sort.Strings"] = sortModel(tStr)
	externalEffects["sort.Float64s"] = func(e *Engine, sc *FnCtx, callee *ssa.Function, eff *Effects) {
		n, s := sc.elemHeap(tFloat)
		eff.heap(n, s)
	}
	externalEffects["sort.Strings"] = func(e *Engine, sc *FnCtx, callee *ssa.Function, eff *Effects) {
		n, s := sc.elemHeap(tStr)
		eff.heap(n, s)
	}
	externalEffects["bytes.Replace"] = func(e *Engine, sc *FnCtx, callee *ssa.Function, eff *Effects) {
		n, s := sc.elemHeap(types.Typ[types.Byte])
		eff.heap(n, s)
		eff.heap("alloc", allocSort)
	}
	// --- strings ------------------------------------------------------------------------------------------------------
	externalModels["strings.HasPrefix"] = func(fr *Frame, callee *ssa.Function, args []Val, resT types.Type, st *State, reach string, pos token.Pos) Val {
		c := fr.c
		c.smt.declareFun("str_hasprefix", []string{"Str", "Str"}, "Bool")
		s, p := c.termOf(args[0]), c.termOf(args[1])
		r := c.smt.define("hasprefix", "Bool", app("str_hasprefix", s, p))
		c.smt.assume(implies(r, app(">=", app("slen", s), app("slen", p))), "HasPrefix ⇒ len(s) ≥ len(prefix)")
		return Val{T: resT, Term: r}
	}
	externalModels["strings.HasSuffix"] = func(fr *Frame, callee *ssa.Function, args []Val, resT types.Type, st *State, reach string, pos token.Pos) Val {
		c := fr.c
		c.smt.declareFun("str_hassuffix", []string{"Str", "Str"}, "Bool")
		s, p := c.termOf(args[0]), c.termOf(args[1])
		r := c.smt.define("hassuffix", "Bool", app("str_hassuffix", s, p))
		c.smt.assume(implies(r, app(">=", app("slen", s), app("slen", p))), "HasSuffix ⇒ len(s) ≥ len(suffix)")
		return Val{T: resT, Term: r}
	}
	// strings.LastIndex / Index: a position in s, or -1 (which position: an uninterpreted function of s and the separator)
	for _, nm := range []string{"LastIndex", "Index"} {
		nm := nm
		externalModels["strings."+nm] = func(fr *Frame, callee *ssa.Function, args []Val, resT types.Type, st *State, reach string, pos token.Pos) Val {
			c := fr.c
			fn := "str_" + strings.ToLower(nm)
			c.smt.declareFun(fn, []string{"Str", "Str"}, "Int")
			t := app(fn, c.termOf(args[0]), c.termOf(args[1]))
			c.smt.assume(and(app("<=", "(- 1)", t), app("<=", t, app("slen", c.termOf(args[0])))), "strings."+nm+": -1 or a position in the string")
			return Val{T: resT, Term: t}
		}
	}
	externalModels["strings.Join"] = func(fr *Frame, callee *ssa.Function, args []Val, resT types.Type, st *State, reach string, pos token.Pos) Val {
		c := fr.c
		// a pure function of the joined elements (window of the backing array) and the separator
		c.smt.declareFun("str_join", []string{"(Array Int Str)", "Int", "Int", "Str"}, "Str")
		s := c.termOf(args[0])
		name, sort := c.elemHeap(tStr)
		h := c.heapGet(st, name, sort)
		return Val{T: resT, Term: c.smt.define("join", "Str", app("str_join", sel(h, app("sl_base", s)), app("sl_off", s), app("sl_len", s), c.termOf(args[1])))}
	}
	// --- strings.SplitN / Split: at least one piece, at most n (n > 0) -----------------------------------------
	splitModel := func(fr *Frame, callee *ssa.Function, args []Val, resT types.Type, st *State, reach string, pos token.Pos) Val {
		c := fr.c
		r := fr.havocVal(resT, "split")
		rt := c.termOf(r)
		c.smt.assume(and(app(">=", app("sl_len", rt), "1"), not(eq(app("sl_base", rt), "0"))), "strings.Split*: at least one piece")
		if len(args) == 3 {
			n := c.termOf(args[2])
			c.smt.assume(implies(app(">", n, "0"), app("<=", app("sl_len", rt), n)), "strings.SplitN: at most n pieces")
		}
		return r
	}
	externalModels["strings.SplitN"] = splitModel
	externalModels["strings.Split"] = splitModel
	// --- strings.Builder / bytes.Buffer: only the length of the accumulated bytes is modelled (len of the buf field) ---
	bufField := func(c *FnCtx, callee *ssa.Function) (string, string, bool) {
		rt := callee.Signature.Recv().Type()
		pt, ok := rt.Underlying().(*types.Pointer)
		if !ok {
			return "", "", false
		}
		idx, _, _ := findField(pt.Elem(), "buf")
		if idx < 0 {
			return "", "", false
		}
		n, srt := c.fieldHeap(pt.Elem(), idx)
		return n, srt, true
	}
	grow := func(kind string) extModel {
		return func(fr *Frame, callee *ssa.Function, args []Val, resT types.Type, st *State, reach string, pos token.Pos) Val {
			c := fr.c
			recv := c.termOf(args[0])
			fr.oblige("safety", "nil dereference "+c.eng.srcText(pos, "call"), reach, not(eq(recv, "0")), pos)
			hn, hs, ok := bufField(c, callee)
			if !ok {
				return fr.havocVal(resT, "buf")
			}
			h := c.heapGet(st, hn, hs)
			oldLen := app("sl_len", sel(h, recv))
			nb := c.smt.declareFresh("bufslice", "Slice")
			c.smt.assume(c.typeFacts(types.NewSlice(types.Typ[types.Byte]), nb), "")
			var add string
			switch kind {
			case "string":
				add = app("slen", c.termOf(args[1]))
			case "bytes":
				add = app("sl_len", c.termOf(args[1]))
			case "byte":
				add = "1"
			case "rune":
				k := c.smt.declareFresh("runelen", "Int")
				c.smt.assume(and(app("<=", "1", k), app("<=", k, "4")), "a rune is 1..4 bytes")
				add = k
			case "reset":
				c.smt.assume(eq(app("sl_len", nb), "0"), "Reset empties the buffer")
				c.heapSet(st, hn, hs, sto(h, recv, nb))
				return Val{T: resT}
			}
			c.smt.assume(eq(app("sl_len", nb), app("+", oldLen, add)), "the buffer grows by what was written")
			c.heapSet(st, hn, hs, sto(h, recv, nb))
			r := fr.havocVal(resT, "wr")
			return r
		}
	}
	for _, ty := range []string{"(*strings.Builder)", "(*bytes.Buffer)"} {
		externalModels[ty+".WriteString"] = grow("string")
		externalModels[ty+".Write"] = grow("bytes")
		externalModels[ty+".WriteByte"] = grow("byte")
		externalModels[ty+".WriteRune"] = grow("rune")
		externalModels[ty+".Reset"] = grow("reset")
		// Grow(n) panics for a negative n ("bytes.Buffer.Grow: negative count"); the contents stay as they are
		externalModels[ty+".Grow"] = func(fr *Frame, callee *ssa.Function, args []Val, resT types.Type, st *State, reach string, pos token.Pos) Val {
			c := fr.c
			fr.oblige("safety", "nil dereference "+c.eng.srcText(pos, "call"), reach, not(eq(c.termOf(args[0]), "0")), pos)
			fr.oblige("safety", "Grow with a negative count "+c.eng.srcText(pos, "call"), reach, app("<=", "0", c.termOf(args[1])), pos)
			return fr.havocVal(resT, "grow")
		}
		for _, mn := range []string{"WriteString", "Write", "WriteByte", "WriteRune", "Reset"} {
			externalEffects[ty+"."+mn] = func(e *Engine, sc *FnCtx, callee *ssa.Function, eff *Effects) {
				if hn, hs, ok := bufField(sc, callee); ok {
					eff.heap(hn, hs)
				}
			}
		}
		externalModels[ty+".Len"] = func(fr *Frame, callee *ssa.Function, args []Val, resT types.Type, st *State, reach string, pos token.Pos) Val {
			c := fr.c
			recv := c.termOf(args[0])
			fr.oblige("safety", "nil dereference "+c.eng.srcText(pos, "call"), reach, not(eq(recv, "0")), pos)
			hn, hs, ok := bufField(c, callee)
			if !ok {
				return fr.havocVal(resT, "buflen")
			}
			return Val{T: resT, Term: c.smt.define("buflen", "Int", app("sl_len", sel(c.heapGet(st, hn, hs), recv)))}
		}
		externalModels[ty+".String"] = func(fr *Frame, callee *ssa.Function, args []Val, resT types.Type, st *State, reach string, pos token.Pos) Val {
			c := fr.c
			recv := c.termOf(args[0])
			hn, hs, ok := bufField(c, callee)
			r := fr.havocVal(resT, "bufstr")
			if ok {
				// (a nil *bytes.Buffer yields "<nil>", a nil *strings.Builder panics: not distinguished, callers in scope hold non-nil ones)
				c.smt.assume(implies(not(eq(recv, "0")), eq(app("slen", c.termOf(r)), app("sl_len", sel(c.heapGet(st, hn, hs), recv)))), "String() has the accumulated length")
			}
			return r
		}
	}
	// --- bytes.NewReader / strings.NewReader / bytes.NewBuffer(String): a new object ------------------------------
	for _, n := range []string{"bytes.NewReader", "strings.NewReader", "bytes.NewBuffer", "bytes.NewBufferString"} {
		externalModels[n] = func(fr *Frame, callee *ssa.Function, args []Val, resT types.Type, st *State, reach string, pos token.Pos) Val {
			return Val{T: resT, Term: fr.c.freshRef(st, "rdr")}
		}
	}
	// (*bytes.Buffer).Bytes: the accumulated bytes (the slice aliases the buffer: its base is not fresh)
	externalModels["(*bytes.Buffer).Bytes"] = func(fr *Frame, callee *ssa.Function, args []Val, resT types.Type, st *State, reach string, pos token.Pos) Val {
		c := fr.c
		recv := c.termOf(args[0])
		fr.oblige("safety", "nil dereference "+c.eng.srcText(pos, "call"), reach, not(eq(recv, "0")), pos)
		r := fr.havocVal(resT, "bufbytes")
		if hn, hs, ok := bufField(c, callee); ok {
			c.smt.assume(eq(app("sl_len", c.termOf(r)), app("sl_len", sel(c.heapGet(st, hn, hs), recv))), "Bytes() has the accumulated length")
		}
		return r
	}
	// --- fmt.Fprint(w, b) with w and b both *bytes.Buffer: w grows by the length of b (b.String() is written) ---
	externalModels["fmt.Fprint"] = func(fr *Frame, callee *ssa.Function, args []Val, resT types.Type, st *State, reach string, pos token.Pos) Val {
		c := fr.c
		r := fr.havocVal(resT, "fprint")
		bp := c.eng.prog.ImportedPackage("bytes")
		idx := -1
		var bt types.Type
		if bp != nil {
			bt = bp.Pkg.Scope().Lookup("Buffer").Type()
			idx, _, _ = findField(bt, "buf")
		}
		if idx < 0 || len(args) != 2 || args[0].Term == "" || args[1].Term == "" {
			for _, a := range args {
				fr.havocPointee(a, st, 0)
			}
			return r
		}
		hn, hs := c.fieldHeap(bt, idx)
		h0 := c.heapGet(st, hn, hs)
		en, es := c.elemHeap(types.NewInterfaceType(nil, nil))
		a0 := c.smt.define("fprint.arg", "Int", sel(sel(c.heapGet(st, en, es), app("sl_base", args[1].Term)), app("sl_off", args[1].Term)))
		fr.havocPointee(args[0], st, 0) // the writer's state changes (operands are only read) ...
		h1 := c.heapGet(st, hn, hs)
		// ... and when writer and operand are both buffers, the accumulated length grows by the operand's length
		c.smt.declareFun("iface_type", []string{"Int"}, "Int")
		c.smt.declareFun("iface_payload", []string{"Int"}, "Int")
		tag := fmt.Sprint(goTypeTag(types.NewPointer(bt)))
		w, b := app("iface_payload", args[0].Term), app("iface_payload", a0)
		cond := and(eq(app("iface_type", args[0].Term), tag), eq(app("sl_len", args[1].Term), "1"), eq(app("iface_type", a0), tag), not(eq(b, "0")))
		c.smt.assume(implies(cond, and(eq(app("sl_len", sel(h1, w)), app("+", app("sl_len", sel(h0, w)), app("sl_len", sel(h0, b)))), implies(not(eq(w, b)), eq(sel(h1, b), sel(h0, b))))), "fmt.Fprint(buffer, buffer) appends the second buffer's bytes")
		return r
	}
	// --- sync/atomic on integers: plain loads and stores (no interleavings are modelled) -------------------------
	for _, ty := range []string{"Int32", "Int64", "Uint32", "Uint64"} {
		ty := ty
		externalModels["sync/atomic.Load"+ty] = func(fr *Frame, callee *ssa.Function, args []Val, resT types.Type, st *State, reach string, pos token.Pos) Val {
			v := fr.loadVia(args[0], st, reach, pos)
			v.T = resT
			return v
		}
		externalModels["sync/atomic.Store"+ty] = func(fr *Frame, callee *ssa.Function, args []Val, resT types.Type, st *State, reach string, pos token.Pos) Val {
			fr.storeVia(args[0], args[1], st, reach, pos)
			return Val{T: resT}
		}
		externalModels["sync/atomic.Add"+ty] = func(fr *Frame, callee *ssa.Function, args []Val, resT types.Type, st *State, reach string, pos token.Pos) Val {
			c := fr.c
			old := fr.loadVia(args[0], st, reach, pos)
			nv := Val{T: resT, Term: c.smt.define("atomicadd", "Int", wrapTo(resT, app("+", c.termOf(old), c.termOf(args[1]))))}
			fr.storeVia(args[0], nv, st, reach, pos)
			return nv
		}
		externalModels["sync/atomic.Swap"+ty] = func(fr *Frame, callee *ssa.Function, args []Val, resT types.Type, st *State, reach string, pos token.Pos) Val {
			old := fr.loadVia(args[0], st, reach, pos)
			fr.storeVia(args[0], args[1], st, reach, pos)
			old.T = resT
			return old
		}
		for _, op := range []string{"Store", "Add", "Swap"} {
			externalEffects["sync/atomic."+op+ty] = func(e *Engine, sc *FnCtx, callee *ssa.Function, eff *Effects) {
				et := callee.Signature.Params().At(0).Type().Underlying().(*types.Pointer).Elem()
				eff.heap(sc.cellHeap(et))
				eff.heap(sc.elemHeap(et))
				for _, fc := range e.fieldsOfType(et) {
					eff.heap(sc.fieldHeap(fc.st, fc.idx))
				}
			}
		}
	}
	// --- time.NewTimer / time.NewTicker: never nil ---------------------------------------------------------------
	for _, n := range []string{"time.NewTimer", "time.NewTicker"} {
		externalModels[n] = func(fr *Frame, callee *ssa.Function, args []Val, resT types.Type, st *State, reach string, pos token.Pos) Val {
			c := fr.c
			r := fr.havocVal(resT, "timer")
			c.smt.assume(not(eq(c.termOf(r), "0")), "time.NewTimer / NewTicker return a timer")
			return r
		}
	}
	// --- context.WithTimeout / WithCancel / WithDeadline: a context and a cancel function, neither nil ------------
	for _, n := range []string{"context.WithTimeout", "context.WithCancel", "context.WithDeadline"} {
		externalModels[n] = func(fr *Frame, callee *ssa.Function, args []Val, resT types.Type, st *State, reach string, pos token.Pos) Val {
			c := fr.c
			r := fr.havocVal(resT, "ctx")
			for _, v := range r.Tuple {
				c.smt.assume(not(eq(c.termOf(v), "0")), "context.With*: results are not nil")
			}
			return r
		}
	}
	// --- regexp submatches: uninterpreted functions of (regexp, input, group index) -------------------------------
	reDecl := func(c *FnCtx) {
		c.smt.declareFun("re_nsub", []string{"Int"}, "Int")
		c.smt.declareFun("re_group", []string{"Int", "Str", "Int"}, "Str")
		c.smt.declareFun("re_name", []string{"Int", "Int"}, "Str")
		c.smt.declareFun("re_match", []string{"Int", "Str"}, "Bool")
	}
	externalModels["(*regexp.Regexp).FindStringSubmatch"] = func(fr *Frame, callee *ssa.Function, args []Val, resT types.Type, st *State, reach string, pos token.Pos) Val {
		c := fr.c
		reDecl(c)
		re, s := c.termOf(args[0]), c.termOf(args[1])
		r := fr.havocVal(resT, "submatch")
		rt := c.termOf(r)
		name, sort := c.elemHeap(tStr)
		al := c.heapGet(st, "alloc", allocSort)
		nb := c.smt.declareFresh("new.submatch", "Int")
		c.smt.assume(and(app(">", nb, "0"), not(sel(al, nb))), "fresh result array")
		arr := c.smt.declareFresh("submatcharr", "(Array Int Str)")
		c.smt.assume(fmt.Sprintf("(forall ((i Int)) (! (= (select %s i) (re_group %s %s i)) :pattern ((select %s i))))", arr, re, s, arr), "FindStringSubmatch: group texts")
		c.smt.assume(and(app(">=", app("re_nsub", re), "1"), app("<=", app("re_nsub", re), "72057594037927936")), "a regexp has at least the whole-match group")
		c.smt.assume(ite(app("re_match", re, s),
			eq(rt, fmt.Sprintf("(mk_slice %s 0 (re_nsub %s) (re_nsub %s))", nb, re, re)),
			eq(rt, "(mk_slice 0 0 0 0)")), "FindStringSubmatch: nil when there is no match, else one text per group")
		h := c.heapGet(st, name, sort)
		c.heapSet(st, name, sort, sto(h, nb, arr))
		c.heapSet(st, "alloc", allocSort, sto(al, nb, "true"))
		return r
	}
	externalEffects["(*regexp.Regexp).FindStringSubmatch"] = func(e *Engine, sc *FnCtx, callee *ssa.Function, eff *Effects) {
		eff.heap(sc.elemHeap(tStr))
		eff.heap("alloc", allocSort)
	}
	externalModels["(*regexp.Regexp).SubexpNames"] = func(fr *Frame, callee *ssa.Function, args []Val, resT types.Type, st *State, reach string, pos token.Pos) Val {
		c := fr.c
		reDecl(c)
		re := c.termOf(args[0])
		name, sort := c.elemHeap(tStr)
		al := c.heapGet(st, "alloc", allocSort)
		nb := c.smt.declareFresh("new.subexpnames", "Int")
		c.smt.assume(and(app(">", nb, "0"), not(sel(al, nb))), "fresh result array")
		arr := c.smt.declareFresh("subexparr", "(Array Int Str)")
		c.smt.assume(fmt.Sprintf("(forall ((i Int)) (! (= (select %s i) (re_name %s i)) :pattern ((select %s i))))", arr, re, arr), "SubexpNames: group names")
		c.smt.assume(and(app(">=", app("re_nsub", re), "1"), app("<=", app("re_nsub", re), "72057594037927936")), "a regexp has at least the whole-match group")
		h := c.heapGet(st, name, sort)
		c.heapSet(st, name, sort, sto(h, nb, arr))
		c.heapSet(st, "alloc", allocSort, sto(al, nb, "true"))
		return Val{T: resT, Term: c.smt.define("subexpnames", "Slice", fmt.Sprintf("(mk_slice %s 0 (re_nsub %s) (re_nsub %s))", nb, re, re))}
	}
	externalEffects["(*regexp.Regexp).SubexpNames"] = externalEffects["(*regexp.Regexp).FindStringSubmatch"]
	// --- regexp: matching is an uninterpreted pure function of (compiled regexp, string) --------------------------
	externalModels["regexp.MustCompile"] = func(fr *Frame, callee *ssa.Function, args []Val, resT types.Type, st *State, reach string, pos token.Pos) Val {
		c := fr.c
		r := c.smt.declareFresh("re", "Int")
		c.smt.assume(app(">", r, "0"), "MustCompile returns a non-nil regexp (or panics)")
		return Val{T: resT, Term: r}
	}
	externalModels["(*regexp.Regexp).MatchString"] = func(fr *Frame, callee *ssa.Function, args []Val, resT types.Type, st *State, reach string, pos token.Pos) Val {
		c := fr.c
		c.smt.declareFun("re_match", []string{"Int", "Str"}, "Bool")
		return Val{T: resT, Term: c.smt.define("rematch", "Bool", app("re_match", c.termOf(args[0]), c.termOf(args[1])))}
	}
	idx := func(fname string) extModel {
		return func(fr *Frame, callee *ssa.Function, args []Val, resT types.Type, st *State, reach string, pos token.Pos) Val {
			c := fr.c
			s := c.termOf(args[0])
			r := c.smt.declareFresh(fname, "Int")
			// -1 or a valid index such that the needle fits
			var nl string
			if isString(args[1].T) {
				nl = app("slen", c.termOf(args[1]))
			} else {
				nl = "1"
			}
			c.smt.assume(and(app("<=", "(- 1)", r), or(eq(r, "(- 1)"), app("<=", app("+", r, nl), app("slen", s)))), fname+" range")
			return Val{T: resT, Term: r}
		}
	}
	for _, n := range []string{"strings.Index", "strings.LastIndex", "strings.IndexByte", "strings.LastIndexByte", "strings.IndexRune"} {
		externalModels[n] = idx(n)
	}
}


func declareViperFns(c *FnCtx) {
	c.smt.declareFun("viper_get_int", []string{"Int", "Str"}, "Int")
	c.smt.declareFun("viper_get_bool", []string{"Int", "Str"}, "Bool")
	c.smt.declareFun("viper_get_str", []string{"Int", "Str"}, "Str")
}
