package main

import (
	"sort"
	"fmt"
	"go/token"
	"go/types"
	"math/big"
	"strings"

	"golang.org/x/tools/go/ssa"
)

func (fr *Frame) execInstr(instr ssa.Instruction, st *State, reach string) {
	c := fr.c
	switch x := instr.(type) {
	case *ssa.DebugRef, *ssa.RunDefers:
		// RunDefers: defers are executed at Return by the defer model (see calls.go)
		if _, ok := instr.(*ssa.RunDefers); ok {
			fr.runDefers(st, reach)
		}
	case *ssa.Alloc:
		fr.vals[x] = fr.alloc(x, st)
	case *ssa.Store:
		addr := fr.val(x.Addr, st)
		v := fr.val(x.Val, st)
		fr.storeVia(addr, v, st, reach, x.Pos())
		if al, ok := x.Addr.(*ssa.Alloc); ok && al.Heap && addr.Addr != nil && addr.Addr.Kind == akCell && len(addr.Addr.Path) == 0 && writeOnce(al) {
			// a captured variable that is assigned exactly once (here) keeps this value whatever is called later
			name, sort := c.cellHeap(addr.Addr.RootT)
			c.frozenCells = append(c.frozenCells, frozenCell{name, sort, addr.Addr.Ref, c.termOf(v)})
		}
	case *ssa.UnOp:
		fr.vals[x] = fr.unop(x, st, reach)
	case *ssa.BinOp:
		fr.vals[x] = fr.binop(x, st, reach)
	case *ssa.FieldAddr:
		fr.vals[x] = fr.fieldAddr(x, st, reach)
	case *ssa.Field:
		sv := fr.val(x.X, st)
		st0 := x.X.Type()
		fr.vals[x] = Val{T: x.Type(), Term: c.structGet(st0, c.termOf(sv), x.Field)}
	case *ssa.IndexAddr:
		fr.vals[x] = fr.indexAddr(x, st, reach)
	case *ssa.Index:
		fr.vals[x] = fr.index(x, st, reach)
	case *ssa.Slice:
		fr.vals[x] = fr.slice(x, st, reach)
	case *ssa.Convert:
		fr.vals[x] = fr.convert(x, st, reach)
	case *ssa.ChangeType:
		v := fr.val(x.X, st)
		v.T = x.Type()
		fr.vals[x] = v
	case *ssa.ChangeInterface:
		v := fr.val(x.X, st)
		v.T = x.Type()
		fr.vals[x] = v
	case *ssa.MakeInterface:
		fr.vals[x] = fr.makeInterface(x, st)
	case *ssa.TypeAssert:
		fr.vals[x] = fr.typeAssert(x, st, reach)
	case *ssa.Extract:
		tv := fr.val(x.Tuple, st)
		if x.Index < len(tv.Tuple) {
			v := tv.Tuple[x.Index]
			if v.T == nil {
				v.T = x.Type()
			}
			fr.vals[x] = v
		} else {
			fr.vals[x] = fr.havocVal(x.Type(), "extract")
		}
	case *ssa.MakeSlice:
		fr.vals[x] = fr.makeSlice(x, st, reach)
	case *ssa.MakeMap:
		fr.vals[x] = fr.makeMap(x, st)
	case *ssa.MakeChan:
		r := c.freshRef(st, "chan")
		// a channel made by gostatsd code is not one that package context hands out (ctxChan)
		c.smt.declareFun("ctx_chan", []string{"Int"}, "Bool")
		c.smt.assume(not(app("ctx_chan", r)), "make(chan): not a context's Done channel")
		fr.vals[x] = Val{T: x.Type(), Term: r}
	case *ssa.MakeClosure:
		fv := &FnVal{Fn: x.Fn.(*ssa.Function)}
		for _, b := range x.Bindings {
			fv.Bindings = append(fv.Bindings, fr.val(b, st))
		}
		fv.CreatedIn = st.clone()
		c.fnID(fv) // identity and labels are fixed at creation
		fr.checkCaptures(fv, st, reach, x.Pos())
		fr.vals[x] = Val{T: x.Type(), Fn: fv}
	case *ssa.Lookup:
		fr.vals[x] = fr.lookup(x, st, reach)
	case *ssa.MapUpdate:
		fr.mapUpdate(x, st, reach)
	case *ssa.Range:
		fr.vals[x] = fr.rangeInit(x, st)
	case *ssa.Next:
		fr.vals[x] = fr.next(x, st, reach)
	case *ssa.Call:
		fr.vals[x] = fr.call(x, x.Common(), st, reach)
	case *ssa.Go:
		fr.goStmt(x, st, reach)
	case *ssa.Defer:
		fr.deferStmt(x, st, reach)
	case *ssa.Send:
		fr.send(x, st, reach)
	case *ssa.Select:
		fr.vals[x] = fr.selectStmt(x, st, reach)
	case *ssa.SliceToArrayPointer, *ssa.MultiConvert:
		c.unsupported(fmt.Sprintf("%T", instr))
		fr.vals[instr.(ssa.Value)] = fr.havocVal(instr.(ssa.Value).Type(), "unsup")
	default:
		c.unsupported(fmt.Sprintf("instruction %T", instr))
		if v, ok := instr.(ssa.Value); ok {
			fr.vals[v] = fr.havocVal(v.Type(), "unsup")
		}
	}
}

func (fr *Frame) havocVal(t types.Type, hint string) Val {
	c := fr.c
	if tup, ok := t.(*types.Tuple); ok {
		var vs []Val
		for i := 0; i < tup.Len(); i++ {
			vs = append(vs, fr.havocVal(tup.At(i).Type(), hint))
		}
		return Val{T: t, Tuple: vs}
	}
	term := c.smt.declareFresh("hv."+hint, c.sortOf(t))
	c.smt.assume(c.typeFacts(t, term), "")
	return Val{T: t, Term: term}
}

func (fr *Frame) alloc(x *ssa.Alloc, st *State) Val {
	c := fr.c
	et := x.Type().(*types.Pointer).Elem()
	if !x.Heap {
		c.nextCell++
		id := c.nextCell
		st.cells[id] = Val{T: et, Term: c.zero(et)}
		return Val{T: x.Type(), Addr: &Addr{Kind: akLocal, CellID: id, RootT: et}}
	}
	v := fr.newObject(et, x.Type(), st, x.Comment)
	if v.Addr != nil && v.Addr.Kind == akCell && privateVar(x, func(f *ssa.Function) bool { ct := c.eng.contractOf(f); return ct != nil && ct.Iterator }) {
		name, sort := c.cellHeap(et)
		c.privateCells = append(c.privateCells, frozenCell{heap: name, sort: sort, ref: v.Addr.Ref})
	}
	return v
}

// newObject allocates a zeroed heap object of type et and returns a pointer to it.
func (fr *Frame) newObject(et types.Type, pt types.Type, st *State, hint string) Val {
	c := fr.c
	if hint == "" {
		hint = "obj"
	}
	r := c.freshRef(st, hint)
	switch u := et.Underlying().(type) {
	case *types.Struct:
		for i := 0; i < u.NumFields(); i++ {
			name, sort := c.fieldHeap(et, i)
			c.heapSet(st, name, sort, sto(c.heapGet(st, name, sort), r, c.zero(u.Field(i).Type())))
		}
		return Val{T: pt, Term: r}
	case *types.Array:
		// arrays live in the element heap so that they can be sliced
		name, sort := c.elemHeap(u.Elem())
		h := c.heapGet(st, name, sort)
		c.heapSet(st, name, sort, sto(h, r, c.constArray("Int", c.sortOf(u.Elem()), c.zero(u.Elem()))))
		return Val{T: pt, Addr: &Addr{Kind: akElem, Ref: r, Idx: "", RootT: u.Elem()}, Term: ""}
	default:
		a := &Addr{Kind: akCell, Ref: r, RootT: et}
		c.writeRoot(st, a, Val{T: et, Term: c.zero(et)})
		return Val{T: pt, Addr: a}
	}
}

// privateVar: a captured variable whose address never leaves the function: it is only read and written directly and
// captured by closures that the function itself only calls or defers (never passes on, stores or starts with go).
// Code behind `modifies everything` cannot reach such a variable.
func privateVar(al *ssa.Alloc, isIterator func(*ssa.Function) bool) bool {
	refs := al.Referrers()
	if refs == nil {
		return false
	}
	for _, r := range *refs {
		switch x := r.(type) {
		case *ssa.UnOp:
			if x.Op != token.MUL {
				return false
			}
		case *ssa.Store:
			if x.Addr != ssa.Value(al) || x.Val == ssa.Value(al) {
				return false
			}
		case *ssa.DebugRef:
		case *ssa.MakeClosure:
			cr := x.Referrers()
			if cr == nil {
				return false
			}
			for _, u := range *cr {
				switch y := u.(type) {
				case *ssa.Defer:
					if y.Call.Value != ssa.Value(x) {
						return false
					}
				case *ssa.Call:
					if y.Call.Value != ssa.Value(x) {
						return false
					}
				case *ssa.Store:
					// the closure is kept in a local variable that is itself only ever called -- directly, or from
					// closures that are handed to iterator functions (which only call them) or called directly
					cell, ok := y.Addr.(*ssa.Alloc)
					if !ok || y.Val != ssa.Value(x) || isIterator == nil || !callOnlyCell(cell, isIterator, 0) {
						return false
					}
				case *ssa.DebugRef:
				default:
					return false
				}
			}
			// the closure must not leak the variable either: inside it, the free variable is only loaded/stored
			fn, ok := x.Fn.(*ssa.Function)
			if !ok {
				return false
			}
			for i, b := range x.Bindings {
				if b != ssa.Value(al) {
					continue
				}
				if i >= len(fn.FreeVars) {
					return false
				}
				fr := fn.FreeVars[i].Referrers()
				if fr == nil {
					return false
				}
				for _, u := range *fr {
					switch y := u.(type) {
					case *ssa.UnOp:
						if y.Op != token.MUL {
							return false
						}
					case *ssa.Store:
						if y.Addr != ssa.Value(fn.FreeVars[i]) || y.Val == ssa.Value(fn.FreeVars[i]) {
							return false
						}
					case *ssa.DebugRef:
					default:
						return false
					}
				}
			}
		default:
			return false
		}
	}
	return true
}

// callOnlyCell: a local variable holding a function value that is only ever loaded in order to be called, in the
// function itself or in closures of it that are themselves only called directly or passed to iterator functions.
func callOnlyCell(cell *ssa.Alloc, isIterator func(*ssa.Function) bool, depth int) bool {
	if depth > 3 {
		return false
	}
	loadsOnlyCalled := func(refs *[]ssa.Instruction, self ssa.Value) bool {
		if refs == nil {
			return false
		}
		for _, r := range *refs {
			switch y := r.(type) {
			case *ssa.UnOp:
				if y.Op != token.MUL {
					return false
				}
				lr := y.Referrers()
				if lr == nil {
					return false
				}
				for _, u := range *lr {
					switch z := u.(type) {
					case *ssa.Call:
						if z.Call.Value != ssa.Value(y) {
							return false
						}
					case *ssa.Defer:
						if z.Call.Value != ssa.Value(y) {
							return false
						}
					case *ssa.DebugRef:
					default:
						return false
					}
				}
			case *ssa.Store:
				if y.Addr != self || y.Val == self {
					return false
				}
			case *ssa.DebugRef:
			case *ssa.MakeClosure:
				// handled by the caller
			default:
				return false
			}
		}
		return true
	}
	if !loadsOnlyCalled(cell.Referrers(), cell) {
		return false
	}
	for _, r := range *cell.Referrers() {
		mc, ok := r.(*ssa.MakeClosure)
		if !ok {
			continue
		}
		fn, ok := mc.Fn.(*ssa.Function)
		if !ok {
			return false
		}
		for i, b := range mc.Bindings {
			if b != ssa.Value(cell) {
				continue
			}
			if i >= len(fn.FreeVars) || !loadsOnlyCalled(fn.FreeVars[i].Referrers(), fn.FreeVars[i]) {
				return false
			}
			for _, u := range *fn.FreeVars[i].Referrers() {
				if _, isMC := u.(*ssa.MakeClosure); isMC {
					return false // captured again one level deeper: not followed
				}
			}
		}
		// the capturing closure itself: called directly, deferred, or an argument of an iterator function
		mr := mc.Referrers()
		if mr == nil {
			return false
		}
		for _, u := range *mr {
			switch z := u.(type) {
			case *ssa.Call:
				if z.Call.Value == ssa.Value(mc) {
					continue
				}
				callee := z.Call.StaticCallee()
				if callee == nil || !isIterator(callee) {
					return false
				}
			case *ssa.Defer:
				if z.Call.Value != ssa.Value(mc) {
					return false
				}
			case *ssa.DebugRef:
			default:
				return false
			}
		}
	}
	return true
}

// nilCheck emits the nil-dereference obligation for a reference term (once per state).
func (fr *Frame) nilCheck(ref string, st *State, reach string, pos token.Pos, what string) {
	if st.nonNil[ref] {
		return
	}
	fr.oblige("safety", "nil dereference "+what, reach, not(eq(ref, "0")), pos)
	st.nonNil[ref] = true
}

func (fr *Frame) fieldAddr(x *ssa.FieldAddr, st *State, reach string) Val {
	c := fr.c
	base := fr.val(x.X, st)
	stT := x.X.Type().Underlying().(*types.Pointer).Elem()
	if base.Addr != nil {
		return Val{T: x.Type(), Addr: base.Addr.with(PathStep{Field: x.Field, T: stT})}
	}
	ref := c.termOf(base)
	fr.nilCheck(ref, st, reach, x.Pos(), c.eng.srcText(x.Pos(), "sel"))
	ft := stT.Underlying().(*types.Struct).Field(x.Field).Type()
	return Val{T: x.Type(), Addr: &Addr{Kind: akField, Struct: stT, Ref: ref, FieldIdx: x.Field, RootT: ft}}
}

func (fr *Frame) loadVia(p Val, st *State, reach string, pos token.Pos) Val {
	c := fr.c
	et := p.T.Underlying().(*types.Pointer).Elem()
	if p.Addr != nil {
		if p.Addr.Kind == akElem && p.Addr.Idx == "" {
			// pointer to whole array object: load the array value
			name, sort := c.elemHeap(p.Addr.RootT)
			return Val{T: et, Term: sel(c.heapGet(st, name, sort), p.Addr.Ref)}
		}
		v := c.load(st, p.Addr)
		v.T = et
		return v
	}
	if st0, ok := et.Underlying().(*types.Struct); ok {
		// load of a whole struct through a reference
		ref := c.termOf(p)
		fr.nilCheck(ref, st, reach, pos, c.eng.srcText(pos, "sel"))
		var fs []string
		for i := 0; i < st0.NumFields(); i++ {
			name, sort := c.fieldHeap(et, i)
			fs = append(fs, sel(c.heapGet(st, name, sort), ref))
		}
		return Val{T: et, Term: c.smt.define("ld", c.sortOf(et), c.structMk(et, fs))}
	}
	// opaque pointer to a non-struct value
	pt := c.termOf(p)
	fr.oblige("safety", "nil dereference "+c.eng.srcText(pos, "sel"), reach, not(eq(pt, "pnil")), pos)
	return Val{T: et, Term: c.ptrLoad(st, pt, et)}
}

func (fr *Frame) storeVia(p Val, v Val, st *State, reach string, pos token.Pos) {
	c := fr.c
	et := p.T.Underlying().(*types.Pointer).Elem()
	if p.Addr != nil {
		if p.Addr.Kind == akElem && p.Addr.Idx == "" {
			name, sort := c.elemHeap(p.Addr.RootT)
			c.heapSet(st, name, sort, sto(c.heapGet(st, name, sort), p.Addr.Ref, c.termOf(v)))
			return
		}
		c.store(st, p.Addr, v)
		return
	}
	if st0, ok := et.Underlying().(*types.Struct); ok {
		ref := c.termOf(p)
		fr.nilCheck(ref, st, reach, pos, c.eng.srcText(pos, "sel"))
		vt := c.termOf(v)
		for i := 0; i < st0.NumFields(); i++ {
			name, sort := c.fieldHeap(et, i)
			c.heapSet(st, name, sort, sto(c.heapGet(st, name, sort), ref, c.structGet(et, vt, i)))
		}
		return
	}
	pt := c.termOf(p)
	fr.oblige("safety", "nil dereference "+c.eng.srcText(pos, "sel"), reach, not(eq(pt, "pnil")), pos)
	c.ptrStore(st, pt, et, c.termOf(v))
}

// ptrLoad / ptrStore: access through an opaque Ptr term by case split over the locations a
// pointer of this element type can denote: heap cells, slice elements, and struct fields of
// the same Go type in the loaded gostatsd packages.
func (c *FnCtx) ptrLoad(st *State, p string, et types.Type) string {
	cn, cs := c.cellHeap(et)
	en, es := c.elemHeap(et)
	t := sel(c.heapGet(st, cn, cs), app("pc_ref", p))
	t = ite(app("(_ is pelem)", p), sel(sel(c.heapGet(st, en, es), app("pe_base", p)), app("pe_idx", p)), t)
	for _, fc := range c.eng.fieldsOfType(et) {
		name, sort := c.fieldHeap(fc.st, fc.idx)
		id := c.fieldID(name)
		t = ite(and(app("(_ is pfield)", p), eq(app("pf_id", p), fmt.Sprint(id))), sel(c.heapGet(st, name, sort), app("pf_ref", p)), t)
	}
	r := c.smt.define("pld", c.sortOf(et), t)
	if !strings.Contains(r, "q.") {
		// the heap only holds well-typed values and allocated references
		c.heapTyped(et, r)
		c.closedHeap(st, et, r, 0)
	}
	return r
}

func (c *FnCtx) ptrStore(st *State, p string, et types.Type, v string) {
	cn, cs := c.cellHeap(et)
	en, es := c.elemHeap(et)
	ch := c.heapGet(st, cn, cs)
	c.heapSet(st, cn, cs, ite(app("(_ is pcell)", p), sto(ch, app("pc_ref", p), v), ch))
	eh := c.heapGet(st, en, es)
	c.heapSet(st, en, es, ite(app("(_ is pelem)", p), sto(eh, app("pe_base", p), sto(sel(eh, app("pe_base", p)), app("pe_idx", p), v)), eh))
	for _, fc := range c.eng.fieldsOfType(et) {
		name, sort := c.fieldHeap(fc.st, fc.idx)
		id := c.fieldID(name)
		h := c.heapGet(st, name, sort)
		c.heapSet(st, name, sort, ite(and(app("(_ is pfield)", p), eq(app("pf_id", p), fmt.Sprint(id))), sto(h, app("pf_ref", p), v), h))
	}
}

func (fr *Frame) unop(x *ssa.UnOp, st *State, reach string) Val {
	c := fr.c
	v := fr.val(x.X, st)
	switch x.Op {
	case token.MUL:
		return fr.loadVia(v, st, reach, x.Pos())
	case token.NOT:
		return Val{T: x.Type(), Term: not(c.termOf(v))}
	case token.SUB:
		if isFloat(x.Type()) {
			if c.floatsIEEE {
				return Val{T: x.Type(), Term: app("fp.neg", c.termOf(v))}
			}
			return Val{T: x.Type(), Term: app("-", c.termOf(v))}
		}
		return Val{T: x.Type(), Term: c.smt.define("neg", "Int", wrapTo(x.Type(), app("-", c.termOf(v))))}
	case token.XOR:
		// bitwise complement
		if isUnsigned(x.Type()) {
			_, hi, _ := intRange(x.Type())
			return Val{T: x.Type(), Term: app("-", bigTerm(hi), c.termOf(v))}
		}
		return Val{T: x.Type(), Term: app("-", app("-", c.termOf(v)), "1")}
	case token.ARROW:
		return fr.recv(x, v, st, reach)
	}
	c.unsupported("unary " + x.Op.String())
	return fr.havocVal(x.Type(), "unop")
}

func (fr *Frame) binop(x *ssa.BinOp, st *State, reach string) Val {
	c := fr.c
	a, b := fr.val(x.X, st), fr.val(x.Y, st)
	at, bt := c.termOf(a), c.termOf(b)
	T := x.Type()
	opT := x.X.Type()
	def := func(term string) Val { return Val{T: T, Term: c.smt.define(sanitize("t"+x.Name()), c.sortOf(T), term)} }
	switch {
	case isInteger(opT):
		switch x.Op {
		case token.ADD:
			return def(wrapTo(T, app("+", at, bt)))
		case token.SUB:
			return def(wrapTo(T, app("-", at, bt)))
		case token.MUL:
			return def(wrapTo(T, app("*", at, bt)))
		case token.QUO:
			fr.oblige("safety", "division by zero "+c.eng.srcText(x.Pos(), "binary"), reach, not(eq(bt, "0")), x.Pos())
			if isUnsigned(opT) {
				return def(app("div", at, bt))
			}
			return def(wrapTo(T, app("tdiv", at, bt)))
		case token.REM:
			fr.oblige("safety", "division by zero "+c.eng.srcText(x.Pos(), "binary"), reach, not(eq(bt, "0")), x.Pos())
			if isUnsigned(opT) {
				return def(app("mod", at, bt)) // both operands are non-negative
			}
			return def(app("trem", at, bt))
		case token.SHL:
			if k, ok := x.Y.(*ssa.Const); ok {
				n := new(big.Int).Lsh(big.NewInt(1), uint(k.Uint64()))
				return def(wrapTo(T, app("*", at, n.String())))
			}
		case token.SHR:
			if k, ok := x.Y.(*ssa.Const); ok {
				n := new(big.Int).Lsh(big.NewInt(1), uint(k.Uint64()))
				return def(app("div", at, n.String()))
			}
		case token.AND:
			if k, ok := x.Y.(*ssa.Const); ok && isUnsigned(T) {
				m := k.Uint64()
				if m&(m+1) == 0 { // 2^k-1
					return def(app("mod", at, fmt.Sprint(m+1)))
				}
			}
		case token.EQL:
			return def(eq(at, bt))
		case token.NEQ:
			return def(not(eq(at, bt)))
		case token.LSS:
			return def(app("<", at, bt))
		case token.LEQ:
			return def(app("<=", at, bt))
		case token.GTR:
			return def(app(">", at, bt))
		case token.GEQ:
			return def(app(">=", at, bt))
		}
		// remaining bit operations: uninterpreted, result in range
		f := "bitop." + sanitize(x.Op.String())
		c.smt.declareFun(f, []string{"Int", "Int"}, "Int")
		r := def(app(f, at, bt))
		c.smt.assume(rangeFact(T, r.Term), "")
		return r
	case isFloat(opT):
		return def(c.floatBin(x.Op, at, bt))
	case isBool(opT):
		switch x.Op {
		case token.EQL:
			return def(eq(at, bt))
		case token.NEQ:
			return def(not(eq(at, bt)))
		case token.AND, token.LAND:
			return def(and(at, bt))
		case token.OR, token.LOR:
			return def(or(at, bt))
		}
	case isString(opT):
		switch x.Op {
		case token.ADD:
			return c.strConcat(Val{T: T, Term: at}, Val{T: T, Term: bt})
		case token.EQL:
			return def(eq(at, bt))
		case token.NEQ:
			return def(not(eq(at, bt)))
		case token.LSS, token.LEQ, token.GTR, token.GEQ:
			c.smt.declareFun("str_lt", []string{"Str", "Str"}, "Bool")
			switch x.Op {
			case token.LSS:
				return def(app("str_lt", at, bt))
			case token.GTR:
				return def(app("str_lt", bt, at))
			case token.LEQ:
				return def(not(app("str_lt", bt, at)))
			default:
				return def(not(app("str_lt", at, bt)))
			}
		}
	default:
		// pointers, interfaces, channels, funcs, structs: equality only
		switch x.Op {
		case token.EQL:
			return def(c.valuesEqual(a, b, opT))
		case token.NEQ:
			return def(not(c.valuesEqual(a, b, opT)))
		}
	}
	c.unsupported("binary " + x.Op.String() + " on " + opT.String())
	return fr.havocVal(T, "binop")
}

func (c *FnCtx) valuesEqual(a, b Val, t types.Type) string {
	if _, ok := t.Underlying().(*types.Slice); ok {
		// only comparison with nil is legal
		s := a
		if a.Term == "(mk_slice 0 0 0 0)" {
			s = b
		}
		return eq(app("sl_base", c.termOf(s)), "0")
	}
	if a.Addr != nil || b.Addr != nil {
		// a statically known address is never nil
		if a.Addr != nil && b.Addr == nil && (b.Term == "0" || b.Term == "pnil") {
			return "false"
		}
		if b.Addr != nil && a.Addr == nil && (a.Term == "0" || a.Term == "pnil") {
			return "false"
		}
	}
	return eq(c.termOf(a), c.termOf(b))
}

// sq: in real mode the square of a term is an uninterpreted function (non-negative), so that
// sums of squares are matched syntactically instead of by non-linear arithmetic.
func (c *FnCtx) sq(a string) string {
	c.smt.declareFun("real_sq", []string{"Real"}, "Real")
	if !c.sqAxiom {
		c.sqAxiom = true
		c.smt.assume("(forall ((x Real)) (! (>= (real_sq x) 0.0) :pattern ((real_sq x))))", "a square is non-negative")
	}
	return app("real_sq", a)
}

func (c *FnCtx) floatBin(op token.Token, a, b string) string {
	if c.floatsIEEE {
		switch op {
		case token.ADD:
			return app("fp.add", "RNE", a, b)
		case token.SUB:
			return app("fp.sub", "RNE", a, b)
		case token.MUL:
			return app("fp.mul", "RNE", a, b)
		case token.QUO:
			return app("fp.div", "RNE", a, b)
		case token.EQL:
			return app("fp.eq", a, b)
		case token.NEQ:
			return not(app("fp.eq", a, b))
		case token.LSS:
			return app("fp.lt", a, b)
		case token.LEQ:
			return app("fp.leq", a, b)
		case token.GTR:
			return app("fp.gt", a, b)
		case token.GEQ:
			return app("fp.geq", a, b)
		}
	}
	switch op {
	case token.ADD:
		return app("+", a, b)
	case token.SUB:
		return app("-", a, b)
	case token.MUL:
		if a == b && !isAtomNumber(a) {
			return c.sq(a)
		}
		return app("*", a, b)
	case token.QUO:
		return app("/", a, b)
	case token.EQL:
		return eq(a, b)
	case token.NEQ:
		return not(eq(a, b))
	case token.LSS:
		return app("<", a, b)
	case token.LEQ:
		return app("<=", a, b)
	case token.GTR:
		return app(">", a, b)
	case token.GEQ:
		return app(">=", a, b)
	}
	return a
}

func (c *FnCtx) strConcat(a, b Val) Val {
	c.smt.declareFun("str_concat", []string{"Str", "Str"}, "Str")
	t := c.smt.define("cat", "Str", app("str_concat", a.Term, b.Term))
	c.smt.assume(eq(app("slen", t), app("+", app("slen", a.Term), app("slen", b.Term))), "len(a+b)")
	return Val{T: a.T, Term: t}
}

func (fr *Frame) indexAddr(x *ssa.IndexAddr, st *State, reach string) Val {
	c := fr.c
	base := fr.val(x.X, st)
	idx := c.termOf(fr.val(x.Index, st))
	text := c.eng.srcText(x.Pos(), "index")
	switch u := x.X.Type().Underlying().(type) {
	case *types.Slice:
		s := c.termOf(base)
		fr.oblige("safety", "index "+text, reach, and(app("<=", "0", idx), app("<", idx, app("sl_len", s))), x.Pos())
		abs := c.smt.define("ix", "Int", elemIdx(slOff(c.smt, s), idx, refElem(u.Elem())))
		return Val{T: x.Type(), Addr: &Addr{Kind: akElem, Ref: slBase(c.smt, s), Idx: abs, RootT: u.Elem()}}
	case *types.Pointer:
		arr := u.Elem().Underlying().(*types.Array)
		fr.oblige("safety", "index "+text, reach, and(app("<=", "0", idx), app("<", idx, fmt.Sprint(arr.Len()))), x.Pos())
		if base.Addr != nil && base.Addr.Kind == akElem && base.Addr.Idx == "" {
			return Val{T: x.Type(), Addr: &Addr{Kind: akElem, Ref: base.Addr.Ref, Idx: idx, RootT: arr.Elem()}}
		}
		if base.Addr != nil {
			return Val{T: x.Type(), Addr: base.Addr.with(PathStep{Index: idx, T: u.Elem()})}
		}
	}
	c.unsupported("IndexAddr on " + x.X.Type().String())
	return Val{T: x.Type(), Term: c.smt.declareFresh("ixaddr", c.sortOf(x.Type()))}
}

func (fr *Frame) index(x *ssa.Index, st *State, reach string) Val {
	c := fr.c
	base := fr.val(x.X, st)
	idx := c.termOf(fr.val(x.Index, st))
	text := c.eng.srcText(x.Pos(), "index")
	switch u := x.X.Type().Underlying().(type) {
	case *types.Basic: // string
		s := c.termOf(base)
		fr.oblige("safety", "index "+text, reach, and(app("<=", "0", idx), app("<", idx, app("slen", s))), x.Pos())
		r := c.smt.define("sb", "Int", app("sbyte", s, idx))
		c.smt.assume(and(app("<=", "0", r), app("<=", r, "255")), "")
		return Val{T: x.Type(), Term: r}
	case *types.Array:
		fr.oblige("safety", "index "+text, reach, and(app("<=", "0", idx), app("<", idx, fmt.Sprint(u.Len()))), x.Pos())
		return Val{T: x.Type(), Term: sel(c.termOf(base), idx)}
	}
	c.unsupported("Index on " + x.X.Type().String())
	return fr.havocVal(x.Type(), "index")
}

func (fr *Frame) slice(x *ssa.Slice, st *State, reach string) Val {
	c := fr.c
	base := fr.val(x.X, st)
	text := c.eng.srcText(x.Pos(), "slice")
	get := func(v ssa.Value) string {
		if v == nil {
			return ""
		}
		return c.termOf(fr.val(v, st))
	}
	lo, hi, max := get(x.Low), get(x.High), get(x.Max)
	if lo == "" {
		lo = "0"
	}
	switch u := x.X.Type().Underlying().(type) {
	case *types.Slice:
		s := c.termOf(base)
		if hi == "" {
			hi = app("sl_len", s)
		}
		capT := app("sl_cap", s)
		var goal string
		if max == "" {
			goal = and(app("<=", "0", lo), app("<=", lo, hi), app("<=", hi, capT))
			max = capT
		} else {
			goal = and(app("<=", "0", lo), app("<=", lo, hi), app("<=", hi, max), app("<=", max, capT))
		}
		fr.oblige("safety", "slice "+text, reach, goal, x.Pos())
		r := c.smt.define("sl", "Slice", fmt.Sprintf("(mk_slice (sl_base %s) (+ (sl_off %s) %s) (- %s %s) (- %s %s))", s, s, lo, hi, lo, max, lo))
		return Val{T: x.Type(), Term: r}
	case *types.Basic: // string
		s := c.termOf(base)
		if hi == "" {
			hi = app("slen", s)
		}
		fr.oblige("safety", "slice "+text, reach, and(app("<=", "0", lo), app("<=", lo, hi), app("<=", hi, app("slen", s))), x.Pos())
		return c.strSub(Val{T: x.Type(), Term: s}, lo, hi)
	case *types.Pointer:
		arr := u.Elem().Underlying().(*types.Array)
		n := fmt.Sprint(arr.Len())
		if hi == "" {
			hi = n
		}
		if max == "" {
			max = n
		}
		fr.oblige("safety", "slice "+text, reach, and(app("<=", "0", lo), app("<=", lo, hi), app("<=", hi, max), app("<=", max, n)), x.Pos())
		if base.Addr != nil && base.Addr.Kind == akElem && base.Addr.Idx == "" {
			r := c.smt.define("sl", "Slice", fmt.Sprintf("(mk_slice %s %s (- %s %s) (- %s %s))", base.Addr.Ref, lo, hi, lo, max, lo))
			return Val{T: x.Type(), Term: r}
		}
	}
	c.unsupported("Slice on " + x.X.Type().String())
	return fr.havocVal(x.Type(), "slice")
}

func (c *FnCtx) strSub(s Val, lo, hi string) Val {
	c.smt.declareFun("str_sub", []string{"Str", "Int", "Int"}, "Str")
	t := c.smt.define("sub", "Str", app("str_sub", s.Term, lo, hi))
	c.smt.assume(implies(and(app("<=", "0", lo), app("<=", lo, hi), app("<=", hi, app("slen", s.Term))),
		and(eq(app("slen", t), app("-", hi, lo)),
			fmt.Sprintf("(forall ((i Int)) (! (=> (and (<= 0 i) (< i (- %s %s))) (= (sbyte %s i) (sbyte %s (+ %s i)))) :pattern ((sbyte %s i))))", hi, lo, t, s.Term, lo, t))), "substring")
	return Val{T: s.T, Term: t}
}

func (fr *Frame) convert(x *ssa.Convert, st *State, reach string) Val {
	c := fr.c
	v := fr.val(x.X, st)
	from, to := x.X.Type(), x.Type()
	vt := c.termOf(v)
	if isUnsafePointer(from) || isUnsafePointer(to) {
		fr.oblige("subset", "conversion through unsafe.Pointer "+c.eng.srcText(x.Pos(), "call"), reach, "false", x.Pos())
		return fr.havocVal(to, "unsafe")
	}
	switch {
	case isInteger(from) && isInteger(to):
		flo, fhi, ok1 := intRange(from)
		tlo, thi, ok2 := intRange(to)
		if ok1 && ok2 && flo.Cmp(tlo) >= 0 && fhi.Cmp(thi) <= 0 {
			return Val{T: to, Term: vt}
		}
		return Val{T: to, Term: c.smt.define("cv", "Int", wrapTo(to, vt))}
	case isInteger(from) && isFloat(to):
		if c.floatsIEEE {
			return Val{T: to, Term: c.smt.define("cv", c.floatSort(), app("(_ to_fp 11 53)", "RNE", app("to_real", vt)))}
		}
		return Val{T: to, Term: app("to_real", vt)}
	case isFloat(from) && isInteger(to):
		if c.floatsIEEE {
			// IEEE mode: the conversion is a (deterministic) function of the float value; which function is not
			// modelled beyond its range, so int64(a/b) and int64(a*(1/b)) are equal only where a/b and a*(1/b) are
			fn := "f2i_" + sanitize(to.Underlying().String())
			c.smt.declareFun(fn, []string{c.floatSort()}, "Int")
			r := c.smt.define("f2i", "Int", app(fn, vt))
			c.smt.assume(rangeFact(to, r), "float→int conversion yields a value of the target type")
			return Val{T: to, Term: r}
		}
		r := c.smt.declareFresh("f2i", "Int")
		c.smt.assume(rangeFact(to, r), "")
		if !c.floatsIEEE {
			// truncation toward zero when representable
			tr := fmt.Sprintf("(ite (>= %s 0.0) (to_int %s) (- (to_int (- %s))))", vt, vt, vt)
			lo, hi, _ := intRange(to)
			c.smt.assume(implies(and(app("<=", bigTerm(lo), tr), app("<=", tr, bigTerm(hi))), eq(r, tr)), "float→int truncation (in range)")
		}
		return Val{T: to, Term: r}
	case isFloat(from) && isFloat(to):
		return Val{T: to, Term: vt}
	case isString(to) && isInteger(from):
		c.smt.declareFun("str_of_rune", []string{"Int"}, "Str")
		return Val{T: to, Term: app("str_of_rune", vt)}
	case isString(to):
		// string(bytes) or string(named string)
		if _, ok := from.Underlying().(*types.Slice); ok {
			return fr.bytesToString(v, to, st)
		}
		return Val{T: to, Term: vt}
	case isString(from):
		if sl, ok := to.Underlying().(*types.Slice); ok {
			return fr.stringToBytes(v, to, sl.Elem(), st)
		}
		return Val{T: to, Term: vt}
	}
	if c.sortOf(from) == c.sortOf(to) {
		v.T = to
		return v
	}
	c.unsupported("convert " + from.String() + " → " + to.String())
	return fr.havocVal(to, "conv")
}

func (fr *Frame) bytesToString(v Val, to types.Type, st *State) Val {
	c := fr.c
	s := c.termOf(v)
	et := v.T.Underlying().(*types.Slice).Elem()
	name, sort := c.elemHeap(et)
	h := c.heapGet(st, name, sort)
	str := c.smt.declareFresh("str", "Str")
	c.smt.assume(eq(app("slen", str), app("sl_len", s)), "len(string(b)) == len(b)")
	c.smt.assume(fmt.Sprintf("(forall ((i Int)) (! (=> (and (<= 0 i) (< i (sl_len %s))) (= (sbyte %s i) (select (select %s (sl_base %s)) (+ (sl_off %s) i)))) :pattern ((sbyte %s i))))", s, str, h, s, s, str), "bytes of string(b)")
	return Val{T: to, Term: str}
}

func (fr *Frame) stringToBytes(v Val, to types.Type, et types.Type, st *State) Val {
	c := fr.c
	s := c.termOf(v)
	r := c.freshRef(st, "bytes")
	name, sort := c.elemHeap(et)
	arr := c.smt.declareFresh("bytesarr", "(Array Int Int)")
	c.smt.assume(fmt.Sprintf("(forall ((i Int)) (! (=> (and (<= 0 i) (< i (slen %s))) (= (select %s i) (sbyte %s i))) :pattern ((select %s i))))", s, arr, s, arr), "[]byte(s)")
	c.heapSet(st, name, sort, sto(c.heapGet(st, name, sort), r, arr))
	sl := c.smt.define("sl", "Slice", fmt.Sprintf("(mk_slice %s 0 (slen %s) (slen %s))", r, s, s))
	c.bytesOfString[sl] = s
	c.bytesOfString[r] = s
	return Val{T: to, Term: sl}
}

func (fr *Frame) makeInterface(x *ssa.MakeInterface, st *State) Val {
	c := fr.c
	v := fr.val(x.X, st)
	// interface values are opaque non-nil references; the payload is remembered only for
	// statically known function values and pointer-to-struct payloads
	r := c.smt.declareFresh("iface", "Int")
	c.smt.assume("(> "+r+" 0)", "")
	if _, ok := ptrToStruct(x.X.Type()); ok && v.Term != "" {
		c.smt.declareFun("iface_payload", []string{"Int"}, "Int")
		c.smt.assume(eq(app("iface_payload", r), v.Term), "")
	}
	if _, isIface := x.X.Type().Underlying().(*types.Interface); !isIface {
		c.smt.declareFun("iface_type", []string{"Int"}, "Int")
		c.smt.assume(eq(app("iface_type", r), fmt.Sprint(goTypeTag(x.X.Type()))), "")
	}
	return Val{T: x.Type(), Term: r, Dyn: &DynVal{T: x.X.Type(), V: v}}
}

func (fr *Frame) typeAssert(x *ssa.TypeAssert, st *State, reach string) Val {
	c := fr.c
	v := fr.val(x.X, st)
	if x.CommaOk {
		ok := c.smt.declareFresh("taok", "Bool")
		res := fr.havocVal(x.AssertedType, "ta")
		c.smt.assume(implies(eq(c.termOf(v), "0"), not(ok)), "type assertion on nil interface fails")
		if _, isIface := x.AssertedType.Underlying().(*types.Interface); !isIface {
			// v, ok := x.(T) for a concrete T: ok exactly when x holds a T; a *Struct result is the stored pointer, and
			// the zero value when the assertion fails
			c.smt.declareFun("iface_type", []string{"Int"}, "Int")
			c.smt.declareFun("iface_payload", []string{"Int"}, "Int")
			it := c.termOf(v)
			c.smt.assume(eq(ok, and(not(eq(it, "0")), eq(app("iface_type", it), fmt.Sprint(goTypeTag(x.AssertedType))))), "v, ok := x.(T): ok iff the dynamic type of x is T")
			if _, isPS := ptrToStruct(x.AssertedType); isPS && res.Term != "" {
				c.smt.assume(eq(res.Term, ite(ok, app("iface_payload", it), "0")), "v, ok := x.(*T): the stored pointer, or nil")
			} else if res.Term != "" && res.Tuple == nil {
				// a value stored in the interface: a function of the interface value (valueIn(x, T) in contracts)
				fn := "iface_val_" + sanitize(sortTag(c.sortOf(x.AssertedType)))
				c.smt.declareFun(fn, []string{"Int"}, c.sortOf(x.AssertedType))
				c.smt.assume(implies(ok, eq(res.Term, app(fn, it))), "v, ok := x.(T): the stored value")
			}
		}
		return Val{T: x.Type(), Tuple: []Val{res, {T: types.Typ[types.Bool], Term: ok}}}
	}
	if v.Dyn != nil && types.Identical(v.Dyn.T, x.AssertedType) {
		return v.Dyn.V // the dynamic type is known statically
	}
	if _, isIface := x.AssertedType.Underlying().(*types.Interface); !isIface {
		// the assertion succeeds when the interface value holds exactly this type (iface_type), which a contract
		// can require with isType(x, T); for a pointer to a struct the result is the stored pointer (iface_payload)
		c.smt.declareFun("iface_type", []string{"Int"}, "Int")
		c.smt.declareFun("iface_payload", []string{"Int"}, "Int")
		it := c.termOf(v)
		fr.oblige("safety", "type assertion "+c.eng.srcText(x.Pos(), ""), reach, and(not(eq(it, "0")), eq(app("iface_type", it), fmt.Sprint(goTypeTag(x.AssertedType)))), x.Pos())
		if _, ok := ptrToStruct(x.AssertedType); ok {
			return Val{T: x.AssertedType, Term: c.smt.define("ta", "Int", app("iface_payload", it))}
		}
	}
	return fr.havocVal(x.AssertedType, "ta")
}

func (fr *Frame) makeSlice(x *ssa.MakeSlice, st *State, reach string) Val {
	c := fr.c
	ln := c.termOf(fr.val(x.Len, st))
	cp := c.termOf(fr.val(x.Cap, st))
	fr.oblige("safety", "make: len out of range "+c.eng.srcText(x.Pos(), "call"), reach, and(app("<=", "0", ln), app("<=", ln, cp)), x.Pos())
	et := x.Type().Underlying().(*types.Slice).Elem()
	r := c.freshRef(st, "mkslice")
	name, sort := c.elemHeap(et)
	c.heapSet(st, name, sort, sto(c.heapGet(st, name, sort), r, c.constArray("Int", c.sortOf(et), c.zero(et))))
	return Val{T: x.Type(), Term: c.smt.define("mk", "Slice", fmt.Sprintf("(mk_slice %s 0 %s %s)", r, ln, cp))}
}

func (fr *Frame) makeMap(x *ssa.MakeMap, st *State) Val {
	c := fr.c
	r := c.freshRef(st, "map")
	c.initEmptyMap(st, x.Type(), r)
	return Val{T: x.Type(), Term: r}
}

func (c *FnCtx) initEmptyMap(st *State, mt types.Type, r string) {
	dn, vn, ln, ks, vs := c.mapHeaps(mt)
	m := mt.Underlying().(*types.Map)
	c.heapSet(st, dn, c.heapSorts[dn], sto(c.heapGet(st, dn, c.heapSorts[dn]), r, fmt.Sprintf("((as const (Array %s Bool)) false)", ks)))
	c.heapSet(st, vn, c.heapSorts[vn], sto(c.heapGet(st, vn, c.heapSorts[vn]), r, c.constArray(ks, vs, c.zero(m.Elem()))))
	c.heapSet(st, ln, c.heapSorts[ln], sto(c.heapGet(st, ln, c.heapSorts[ln]), r, "0"))
}

func (fr *Frame) lookup(x *ssa.Lookup, st *State, reach string) Val {
	c := fr.c
	m := fr.val(x.X, st)
	k := c.termOf(fr.val(x.Index, st))
	if isString(x.X.Type()) {
		s := c.termOf(m)
		fr.oblige("safety", "index "+c.eng.srcText(x.Pos(), "index"), reach, and(app("<=", "0", k), app("<", k, app("slen", s))), x.Pos())
		r := c.smt.define("sb", "Int", app("sbyte", s, k))
		c.smt.assume(and(app("<=", "0", r), app("<=", r, "255")), "")
		return Val{T: x.Type(), Term: r}
	}
	mt := x.X.Type()
	mref := c.termOf(m)
	has, val := c.mapRead(st, mt, mref, k)
	elemT := mt.Underlying().(*types.Map).Elem()
	c.mapZeroFact(has, val, elemT)
	v := Val{T: elemT, Term: c.smt.define("mv", c.sortOf(elemT), val)}
	c.heapTyped(elemT, v.Term)
	c.closedHeap(st, elemT, v.Term, 0)
	if x.CommaOk {
		return Val{T: x.Type(), Tuple: []Val{v, {T: types.Typ[types.Bool], Term: c.smt.define("mh", "Bool", has)}}}
	}
	return v
}

// mapRead returns (present, stored value) of m[k].
func (c *FnCtx) mapRead(st *State, mt types.Type, m, k string) (string, string) {
	// Invariants of the map model: the nil map (reference 0) has no keys (heapSymbolAxioms; map
	// writes never happen at 0), and a key that is absent holds the zero value (mapZeroFact).
	dn, vn, _, _, _ := c.mapHeaps(mt)
	has := sel(sel(c.heapGet(st, dn, c.heapSorts[dn]), m), k)
	val := sel(sel(c.heapGet(st, vn, c.heapSorts[vn]), m), k)
	return has, val
}

func (fr *Frame) mapUpdate(x *ssa.MapUpdate, st *State, reach string) {
	c := fr.c
	m := c.termOf(fr.val(x.Map, st))
	k := c.termOf(fr.val(x.Key, st))
	v := c.termOf(fr.val(x.Value, st))
	fr.oblige("safety", "assignment to entry in nil map "+c.eng.srcText(x.Pos(), "index"), reach, not(eq(m, "0")), x.Pos())
	c.mapWrite(st, x.Map.Type(), m, k, v)
}

// mapZeroFact: reading an absent key yields the zero value (ground instance of the model
// invariant "absent keys hold zero", kept by make, delete and every write).
func (c *FnCtx) mapZeroFact(has, val string, elemT types.Type) {
	if strings.Contains(has, "q.") || strings.Contains(val, "q.") {
		return
	}
	key := "zero|" + val
	if c.typedSeen[key] {
		return
	}
	c.typedSeen[key] = true
	c.smt.assume(implies(not(has), eq(val, c.zero(elemT))), "")
}

func (c *FnCtx) mapWrite(st *State, mt types.Type, m, k, v string) {
	dn, vn, ln, _, _ := c.mapHeaps(mt)
	d := c.heapGet(st, dn, c.heapSorts[dn])
	vv := c.heapGet(st, vn, c.heapSorts[vn])
	l := c.heapGet(st, ln, c.heapSorts[ln])
	c.heapSet(st, ln, c.heapSorts[ln], sto(l, m, ite(sel(sel(d, m), k), sel(l, m), app("+", sel(l, m), "1"))))
	c.heapSet(st, dn, c.heapSorts[dn], sto(d, m, sto(sel(d, m), k, "true")))
	c.heapSet(st, vn, c.heapSorts[vn], sto(vv, m, sto(sel(vv, m), k, v)))
}

func (c *FnCtx) mapDelete(st *State, mt types.Type, m, k string) {
	dn, vn, ln, _, _ := c.mapHeaps(mt)
	d := c.heapGet(st, dn, c.heapSorts[dn])
	l := c.heapGet(st, ln, c.heapSorts[ln])
	vv := c.heapGet(st, vn, c.heapSorts[vn])
	has := sel(sel(d, m), k)
	c.heapSet(st, ln, c.heapSorts[ln], ite(has, sto(l, m, app("-", sel(l, m), "1")), l))
	c.heapSet(st, dn, c.heapSorts[dn], ite(has, sto(d, m, sto(sel(d, m), k, "false")), d))
	c.heapSet(st, vn, c.heapSorts[vn], ite(has, sto(vv, m, sto(sel(vv, m), k, c.zero(mt.Underlying().(*types.Map).Elem()))), vv))
}

// range over a map: ghost visited set ---------------------------------------------------------------

func (fr *Frame) rangeInit(x *ssa.Range, st *State) Val {
	c := fr.c
	m := fr.val(x.X, st)
	if isString(x.X.Type()) {
		return Val{T: x.Type(), Iter: &IterVal{Map: m, Str: true}}
	}
	mt := x.X.Type().Underlying().(*types.Map)
	ks := c.sortOf(mt.Key())
	ord := 0
	for i, r := range fr.rangesOf() {
		if r == x {
			ord = i + 1
		}
	}
	g := fmt.Sprintf("visited.%s.%d", sanitize(fr.fn.Name()), ord)
	c.ghostSorts[g] = "(Array " + ks + " Bool)"
	st.ghost[g] = fmt.Sprintf("((as const (Array %s Bool)) false)", ks)
	fr.iterGhost[x] = g
	return Val{T: x.Type(), Iter: &IterVal{Map: m, Visited: g, KeyT: mt.Key(), ValT: mt.Elem()}}
}

func (fr *Frame) rangesOf() []*ssa.Range { return rangesInSourceOrder(fr.fn) }

func rangesInSourceOrder(fn *ssa.Function) []*ssa.Range {
	var out []*ssa.Range
	for _, b := range fn.Blocks {
		for _, in := range b.Instrs {
			if r, ok := in.(*ssa.Range); ok {
				out = append(out, r)
			}
		}
	}
	// numbered in source order (block order differs for loops that follow a nest of loops)
	sort.SliceStable(out, func(i, j int) bool { return out[i].Pos() < out[j].Pos() })
	return out
}

func (fr *Frame) next(x *ssa.Next, st *State, reach string) Val {
	c := fr.c
	it := fr.val(x.Iter, st).Iter
	okT := c.smt.declareFresh("rng.ok", "Bool")
	tup := x.Type().(*types.Tuple)
	if it == nil || it.Str {
		return Val{T: x.Type(), Tuple: []Val{{T: types.Typ[types.Bool], Term: okT}, fr.havocVal(tup.At(1).Type(), "rk"), fr.havocVal(tup.At(2).Type(), "rv")}}
	}
	mt := it.Map.T
	m := c.termOf(it.Map)
	k := c.smt.declareFresh("rng.k", c.sortOf(it.KeyT))
	c.smt.assume(c.typeFacts(it.KeyT, k), "")
	vis := st.ghost[it.Visited]
	has, val := c.mapRead(st, mt, m, k)
	dn, _, _, ks, _ := c.mapHeaps(mt)
	dom := sel(c.heapGet(st, dn, c.heapSorts[dn]), m)
	c.smt.assume(implies(okT, and(has, not(sel(vis, k)))), "range yields an unvisited key of the map")
	c.smt.assume(implies(not(okT), or(eq(m, "0"), fmt.Sprintf("(forall ((k %s)) (! (=> (select %s k) (select %s k)) :pattern ((select %s k))))", ks, dom, vis, dom))), "range ends when every key was visited")
	st.ghost[it.Visited] = c.smt.define("vis", c.ghostSorts[it.Visited], ite(okT, sto(vis, k, "true"), vis))
	kv := Val{T: it.KeyT, Term: k}
	if fr.parent == nil {
		kind := "int"
		if isFloat(it.KeyT) {
			kind = "float"
		}
		if isFloat(it.KeyT) || isInteger(it.KeyT) {
			c.addWitness(Witness{Path: "rangekey." + strings.TrimPrefix(it.Visited, "visited."), Term: k, Kind: kind, T: it.KeyT})
		}
	}
	vv := Val{T: it.ValT, Term: c.smt.define("rng.v", c.sortOf(it.ValT), val)}
	c.smt.assume(implies(okT, c.typeFacts(it.ValT, vv.Term)), "")
	c.closedHeap(st, it.ValT, vv.Term, 0)
	return Val{T: x.Type(), Tuple: []Val{{T: types.Typ[types.Bool], Term: okT}, kv, vv}}
}

func isUnsafePointer(t types.Type) bool {
	b, ok := t.Underlying().(*types.Basic)
	return ok && b.Kind() == types.UnsafePointer
}

func isAtomNumber(t string) bool {
	if t == "" {
		return false
	}
	for _, ch := range t {
		if !(ch >= '0' && ch <= '9' || ch == '.') {
			return false
		}
	}
	return true
}

type frozenCell struct{ heap, sort, ref, val string }

// writeOnce: the variable behind al is stored to exactly once, in its own function, and is otherwise only read
// (by that function or by the closures that capture it); its address does not escape in any other way.
func writeOnce(al *ssa.Alloc) bool {
	stores := 0
	var readOnly func(v ssa.Value) bool
	readOnly = func(v ssa.Value) bool {
		refs := v.Referrers()
		if refs == nil {
			return false
		}
		for _, r := range *refs {
			switch x := r.(type) {
			case *ssa.UnOp:
				if x.Op != token.MUL {
					return false
				}
			case *ssa.DebugRef:
			case *ssa.Store:
				if x.Addr != v || x.Val == v {
					return false
				}
				if v != ssa.Value(al) {
					return false // a closure assigns to the captured variable
				}
				if _, isParam := x.Val.(*ssa.Parameter); !isParam && !storeBeforeClosures(x, al) {
					return false // parameter spills (stored on entry), or a store that precedes every closure capturing the variable
				}
				stores++
			case *ssa.MakeClosure:
				fn, ok := x.Fn.(*ssa.Function)
				if !ok {
					return false
				}
				for i, b := range x.Bindings {
					if b == v {
						if i >= len(fn.FreeVars) || !readOnly(fn.FreeVars[i]) {
							return false
						}
					}
				}
			default:
				return false
			}
		}
		return true
	}
	return readOnly(al) && stores == 1
}

// storeBeforeClosures: the store is executed before any closure that captures al is created (it precedes the
// MakeClosure in the same block, or its block dominates the MakeClosure's), so no closure -- and no goroutine
// running one -- ever sees the variable change.
func storeBeforeClosures(st *ssa.Store, al *ssa.Alloc) bool {
	refs := al.Referrers()
	if refs == nil {
		return false
	}
	idx := func(in ssa.Instruction) int {
		for i, x := range in.Block().Instrs {
			if x == in {
				return i
			}
		}
		return -1
	}
	for _, r := range *refs {
		mc, ok := r.(*ssa.MakeClosure)
		if !ok {
			continue
		}
		if mc.Block() == st.Block() {
			if idx(mc) < idx(st) {
				return false
			}
		} else if !st.Block().Dominates(mc.Block()) {
			return false
		}
	}
	return true
}

// freeVarWriteOnce: the variable captured as fv is write-once in the function that declares it (see writeOnce).
func freeVarWriteOnce(fv *ssa.FreeVar) bool {
	fn := fv.Parent()
	parent := fn.Parent()
	if parent == nil {
		return false
	}
	idx := -1
	for i, f := range fn.FreeVars {
		if f == fv {
			idx = i
		}
	}
	if idx < 0 {
		return false
	}
	for _, b := range parent.Blocks {
		for _, in := range b.Instrs {
			mc, ok := in.(*ssa.MakeClosure)
			if !ok || mc.Fn != ssa.Value(fn) || idx >= len(mc.Bindings) {
				continue
			}
			switch x := mc.Bindings[idx].(type) {
			case *ssa.Alloc:
				return writeOnce(x)
			case *ssa.FreeVar:
				return freeVarWriteOnce(x)
			}
			return false
		}
	}
	return false
}
