package main

import (
	"flag"
	"fmt"
	"os"
	"sort"
	"strings"
	"time"
)

func usage() {
	fmt.Fprintln(os.Stderr, `gvc — contract verifier for gostatsd
  gvc fn    [-repo /repo] [-pkg ./internal/lexer] [-v] [-keep] <function key>...   verify single functions (debug)
  gvc sweep [-repo /repo] -pkg <pattern>                                       zero-annotation safety sweep
  gvc check -property C03 [-tier quick|thorough] [-repo /repo]                  run a property check
  gvc selftest [-property C03]                                                  must-fail corpus`)
	os.Exit(2)
}

func main() {
	// the repository needs go1.23.6: put the cached toolchain first on PATH (exec.LookPath uses
	// this process's PATH, not packages.Config.Env)
	if _, err := os.Stat(goToolchainBin); err == nil {
		os.Setenv("PATH", goToolchainBin+":"+os.Getenv("PATH"))
	}
	os.Setenv("GOTOOLCHAIN", "local")
	os.Setenv("GOPROXY", "off")
	if len(os.Args) < 2 {
		usage()
	}
	switch os.Args[1] {
	case "fn":
		cmdFn(os.Args[2:])
	case "sweep":
		cmdSweep(os.Args[2:])
	case "check":
		cmdCheck(os.Args[2:])
	case "selftest":
		cmdSelftest(os.Args[2:])
	case "replay":
		cmdReplay(os.Args[2:])
	default:
		usage()
	}
}

func verifRoot() string {
	if r := os.Getenv("VERIF_ROOT"); r != "" {
		return r
	}
	return "/verif"
}

func workdir() string {
	d, err := os.MkdirTemp("", "gvc-")
	if err != nil {
		panic(err)
	}
	return d
}

func cmdFn(args []string) {
	fs := flag.NewFlagSet("fn", flag.ExitOnError)
	repo := fs.String("repo", "/repo", "repository")
	pkg := fs.String("pkg", "./...", "package pattern(s), comma separated")
	verbose := fs.Bool("v", false, "verbose")
	keep := fs.Bool("keep", false, "keep SMT queries")
	timeout := fs.Duration("timeout", 10*time.Second, "per-solver timeout")
	dump := fs.String("dump", "", "write the full script of the named obligation (substring) to stdout")
	ov := fs.String("overlay", "", "orig=replacement[,orig=replacement]: load replacement file contents in place of orig (in memory)")
	fs.Parse(args)
	keepQueries = *keep
	overlay := map[string][]byte{}
	if *ov != "" {
		for _, kv := range strings.Split(*ov, ",") {
			i := strings.Index(kv, "=")
			data, err := os.ReadFile(kv[i+1:])
			if err != nil {
				fmt.Fprintln(os.Stderr, err)
				os.Exit(2)
			}
			overlay[kv[:i]] = data
		}
	}
	e, err := loadEngine(*repo, strings.Split(*pkg, ","), overlay, []string{verifRoot() + "/specs"})
	if err != nil {
		fmt.Fprintln(os.Stderr, err)
		os.Exit(2)
	}
	wd := workdir()
	if !*keep {
		defer os.RemoveAll(wd)
	} else {
		fmt.Println("queries in", wd)
	}
	var reps []*FnReport
	for _, key := range fs.Args() {
		fn := e.findFunction(key)
		if fn == nil {
			fmt.Fprintf(os.Stderr, "function %q not found\n", key)
			os.Exit(2)
		}
		rep := e.verifyFunction(fn)
		reps = append(reps, rep)
	}
	var all []*Obligation
	for _, r := range reps {
		all = append(all, r.Obligations...)
	}
	if *dump != "" {
		for _, o := range all {
			if strings.Contains(o.Name, *dump) {
				fmt.Println(o.query(true))
				return
			}
		}
	}
	dischargeAll(all, RunOpts{Timeout: *timeout, Agree: 1, Workdir: wd})
	for _, r := range reps {
		printReport(r, *verbose)
	}
	total, ok, failed := summarize(reps)
	fmt.Printf("obligations %d discharged %d failed %d\n", total, ok, len(failed))
	if len(failed) > 0 {
		os.Exit(1)
	}
}

func printReport(r *FnReport, verbose bool) {
	fmt.Printf("== %s (%d obligations, %.2fs gen)\n", r.Fn, len(r.Obligations), r.Seconds)
	for _, u := range r.Unsupported {
		fmt.Printf("   note: %s\n", u)
	}
	if verbose {
		for _, a := range r.Assumed {
			fmt.Printf("   assumed: %s\n", a)
		}
	}
	for _, o := range r.Obligations {
		if o.ok() && !verbose {
			continue
		}
		st := "FAIL"
		if o.ok() {
			st = "ok  "
		}
		fmt.Printf("   %s %-8s %s [%s %s %.2fs] %s\n", st, o.Result.Status, o.Name, o.Pos, o.Result.Solver, o.Result.Seconds, allSolvers(o))
		if !o.ok() && o.Result.Status == "sat" {
			vals := parseValues(o.Result.Output)
			var ks []string
			for k := range vals {
				ks = append(ks, k)
			}
			sort.Strings(ks)
			for _, k := range ks {
				fmt.Printf("        %s = %s\n", k, vals[k])
			}
		}
		if !o.ok() && (o.Result.Status == "bind-error" || o.Result.Status == "engine-error" || o.Result.Status == "unknown") && o.Result.Output != "" {
			fmt.Printf("        %s\n", firstLines(o.Result.Output, 4))
		}
	}
}

func allSolvers(o *Obligation) string {
	var parts []string
	for _, k := range sortedKeys(o.Result.All) {
		parts = append(parts, k+"="+o.Result.All[k])
	}
	return strings.Join(parts, " ")
}

// findFunction resolves "pkgname.Key" or a bare key (must be unique).
func (e *Engine) findFunction(key string) *ssaFunction {
	var found *ssaFunction
	for k, fn := range e.fnByKey {
		i := strings.Index(k, "::")
		path, rel := k[:i], k[i+2:]
		short := path[strings.LastIndex(path, "/")+1:]
		if rel == key || short+"."+rel == key || path+"."+rel == key || path+"::"+rel == key {
			if found != nil && found != fn {
				fmt.Fprintf(os.Stderr, "ambiguous function key %q\n", key)
				return nil
			}
			found = fn
		}
	}
	return found
}

func cmdSweep(args []string) {
	fs := flag.NewFlagSet("sweep", flag.ExitOnError)
	repo := fs.String("repo", "/repo", "repository")
	pkg := fs.String("pkg", "./...", "package pattern(s), comma separated")
	only := fs.String("only", "", "substring filter on function names")
	timeout := fs.Duration("timeout", 5*time.Second, "per-solver timeout")
	fs.Parse(args)
	e, err := loadEngine(*repo, strings.Split(*pkg, ","), nil, []string{verifRoot() + "/specs"})
	if err != nil {
		fmt.Fprintln(os.Stderr, err)
		os.Exit(2)
	}
	wd := workdir()
	defer os.RemoveAll(wd)
	var keys []string
	for k := range e.fnByKey {
		keys = append(keys, k)
	}
	sort.Strings(keys)
	var reps []*FnReport
	for _, k := range keys {
		fn := e.fnByKey[k]
		if fn.Blocks == nil || (*only != "" && !strings.Contains(k, *only)) {
			continue
		}
		if strings.HasSuffix(e.fset.Position(fn.Pos()).Filename, "_test.go") {
			continue
		}
		rep := e.verifyFunction(fn)
		dischargeAll(rep.Obligations, RunOpts{Timeout: *timeout, Agree: 1, Workdir: wd})
		reps = append(reps, rep)
		_, _, failed := summarize([]*FnReport{rep})
		if len(failed) > 0 || len(rep.Unsupported) > 0 {
			printReport(rep, false)
		}
	}
	total, ok, failed := summarize(reps)
	fmt.Printf("functions %d obligations %d discharged %d failed %d\n", len(reps), total, ok, len(failed))
}
