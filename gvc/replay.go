package main

// Replay of solver models against the real code: a Go test is generated from the model,
// injected into the package with `go test -overlay` (nothing is written into the repository) and
// run. Generic boundary driver: the function is called directly on a state built from the
// model (fields of the receiver/parameters, slice lengths and byte contents).

import (
	"bytes"
	"encoding/json"
	"fmt"
	"go/types"
	"math"
	"os"
	"os/exec"
	"path/filepath"
	"sort"
	"strconv"
	"strings"
	"text/template"
	"time"

	"golang.org/x/tools/go/ssa"
)

type ReplayResult struct {
	Kind       string `json:"kind"` // "boundary" (function called directly on the model state), "entry", "none"
	Reproduced bool   `json:"reproduced"`
	Log        string `json:"log"`
	TestFile   string `json:"test_file,omitempty"`
	Test       string `json:"test_source,omitempty"`
	Pkg        string `json:"package,omitempty"`
	Why        string `json:"why,omitempty"`
}

// Witness describes one model-readable component of the entry state.
type Witness struct {
	Path  string     // Go access path from a parameter, e.g. "l.pos", "len(l.input)"
	Term  string     // SMT term
	Kind  string     // int, bool, float, strlen, slicelen, slicecap, nonnil, bytes
	T     types.Type // Go type of the component
	Slice string     // for Kind bytes: the slice term
	Elem  string     // for Kind bytes: element heap symbol
}

// collectWitnesses registers model-readable terms for the parameters of the function under
// verification (depth-limited walk through pointers to structs).
func (c *FnCtx) collectWitnesses(fr *Frame, st *State) {
	for i, p := range fr.fn.Params {
		if i >= len(fr.params) {
			continue
		}
		c.witnessWalk(p.Name(), fr.params[i], p.Type(), st, 0)
	}
}

func (c *FnCtx) addWitness(w Witness) {
	c.witnesses = append(c.witnesses, w)
}

func (c *FnCtx) witnessWalk(path string, v Val, t types.Type, st *State, depth int) {
	if v.Term == "" {
		return
	}
	switch u := t.Underlying().(type) {
	case *types.Basic:
		switch {
		case u.Info()&types.IsInteger != 0:
			c.addWitness(Witness{Path: path, Term: v.Term, Kind: "int", T: t})
		case u.Info()&types.IsBoolean != 0:
			c.addWitness(Witness{Path: path, Term: v.Term, Kind: "bool", T: t})
		case u.Info()&types.IsFloat != 0:
			c.addWitness(Witness{Path: path, Term: v.Term, Kind: "float", T: t})
		case u.Info()&types.IsString != 0:
			c.addWitness(Witness{Path: path, Term: app("slen", v.Term), Kind: "strlen", T: t})
		}
	case *types.Slice:
		c.addWitness(Witness{Path: path, Term: app("sl_len", v.Term), Kind: "slicelen", T: t})
		c.addWitness(Witness{Path: path, Term: app("sl_cap", v.Term), Kind: "slicecap", T: t})
		if b, ok := u.Elem().Underlying().(*types.Basic); ok && (b.Kind() == types.Uint8 || b.Info()&types.IsFloat != 0 || b.Info()&types.IsInteger != 0) {
			name, sort := c.elemHeap(u.Elem())
			c.addWitness(Witness{Path: path, Kind: "elems", T: t, Slice: v.Term, Elem: c.heapGet(st, name, sort)})
		}
	case *types.Pointer:
		stT, ok := u.Elem().Underlying().(*types.Struct)
		if !ok {
			return
		}
		c.addWitness(Witness{Path: path, Term: not(eq(v.Term, "0")), Kind: "nonnil", T: t})
		if depth >= 2 {
			return
		}
		for i := 0; i < stT.NumFields(); i++ {
			f := stT.Field(i)
			name, sort := c.fieldHeap(u.Elem(), i)
			fv := Val{T: f.Type(), Term: sel(c.heapGet(st, name, sort), v.Term)}
			c.witnessWalk(path+"."+f.Name(), fv, f.Type(), st, depth+1)
		}
	case *types.Map:
		c.addWitness(Witness{Path: path, Term: not(eq(v.Term, "0")), Kind: "nonnil", T: t})
	case *types.Struct:
		if depth >= 2 {
			return
		}
		for i := 0; i < u.NumFields(); i++ {
			f := u.Field(i)
			c.witnessWalk(path+"."+f.Name(), Val{T: f.Type(), Term: c.structGet(t, v.Term, i)}, f.Type(), st, depth+1)
		}
	}
}

// modelFor runs the failed query again asking for witness values (two steps: scalars, then
// slice contents with the scalars pinned).
func (o *Obligation) modelFor(timeout time.Duration, workdir string) map[string]string {
	c := o.Ctx
	var scalars []Witness
	var terms []string
	for _, w := range c.witnesses {
		if w.Kind != "elems" {
			scalars = append(scalars, w)
			terms = append(terms, w.Term)
		}
	}
	if len(terms) == 0 {
		return nil
	}
	extra := []string{o.Reach, not(o.Goal)}
	q := c.smt.renderOpt(o.UpTo, extra, terms, o.Relaxed)
	r := solveOne(q, timeout, workdir, o.Name+".m1")
	if r.Status != "sat" {
		return nil
	}
	vals := parseValues(r.Output)
	model := map[string]string{}
	pins := append([]string{}, extra...)
	lens := map[string]int64{}
	for _, w := range scalars {
		v, ok := vals[w.Term]
		if !ok {
			continue
		}
		key := w.Path
		switch w.Kind {
		case "slicelen":
			key = "len(" + w.Path + ")"
			if n, ok := smtIntValue(v); ok {
				lens[w.Path] = n
			}
		case "slicecap":
			key = "cap(" + w.Path + ")"
		case "strlen":
			key = "len(" + w.Path + ")"
		case "nonnil":
			key = w.Path + "!=nil"
		}
		model[key] = v
		if w.Kind == "int" || w.Kind == "slicelen" || w.Kind == "slicecap" || w.Kind == "strlen" || w.Kind == "nonnil" || w.Kind == "bool" {
			pins = append(pins, eq(w.Term, v))
		}
	}
	// step 2: contents
	var eterms []string
	type eref struct {
		path string
		i    int64
	}
	refs := map[string]eref{}
	for _, w := range c.witnesses {
		if w.Kind != "elems" {
			continue
		}
		n := lens[w.Path]
		if n > 512 {
			n = 512
		}
		for i := int64(0); i < n; i++ {
			t := sel(sel(w.Elem, app("sl_base", w.Slice)), app("+", app("sl_off", w.Slice), fmt.Sprint(i)))
			eterms = append(eterms, t)
			refs[t] = eref{w.Path, i}
		}
	}
	if len(eterms) > 0 {
		q2 := c.smt.renderOpt(o.UpTo, pins, eterms, o.Relaxed)
		r2 := solveOne(q2, timeout, workdir, o.Name+".m2")
		if r2.Status == "sat" {
			ev := parseValues(r2.Output)
			per := map[string][]string{}
			for _, t := range eterms {
				rf := refs[t]
				for int64(len(per[rf.path])) <= rf.i {
					per[rf.path] = append(per[rf.path], "0")
				}
				if v, ok := ev[t]; ok {
					per[rf.path][rf.i] = v
				}
			}
			for p, vs := range per {
				model[p+"[...]"] = strings.Join(vs, ",")
			}
		}
	}
	return model
}

// solveOne: z3-new only (models), used for witness extraction.
func solveOne(query string, timeout time.Duration, workdir, tag string) SolverResult {
	f := queryFile(workdir, tag)
	os.WriteFile(f, []byte(query), 0o644)
	for _, s := range []string{"z3-new", "z3"} {
		cmd := exec.Command(s, "-smt2", fmt.Sprintf("-T:%d", int(timeout.Seconds())+1), f)
		out, _ := cmd.CombinedOutput()
		first := strings.TrimSpace(strings.SplitN(string(out), "\n", 2)[0])
		if first == "sat" {
			return SolverResult{Status: "sat", Solver: s, Output: string(out)}
		}
	}
	return SolverResult{Status: "unknown"}
}

// value rendering -------------------------------------------------------------------------------------

func goInt(v string, t types.Type) (string, bool) {
	n, ok := smtIntValue(v)
	if !ok {
		return "", false
	}
	return fmt.Sprintf("%d", n), true
}

func goFloat(v string) (string, bool) {
	v = strings.TrimSpace(v)
	switch {
	case strings.Contains(v, "NaN"):
		return "math.NaN()", true
	case strings.Contains(v, "+oo"):
		return "math.Inf(1)", true
	case strings.Contains(v, "-oo"):
		return "math.Inf(-1)", true
	case strings.Contains(v, "+zero"):
		return "0.0", true
	case strings.Contains(v, "-zero"):
		return "math.Copysign(0, -1)", true
	}
	if strings.HasPrefix(v, "(fp ") {
		f := sexprSplit(v[4 : len(v)-1])
		if len(f) == 3 {
			bits := strings.TrimPrefix(f[0], "#b") + binOf(f[1]) + binOf(f[2])
			if u, err := strconv.ParseUint(bits, 2, 64); err == nil {
				return fmt.Sprintf("math.Float64frombits(%d)", u), true
			}
		}
		return "", false
	}
	if x, ok := realValue(v); ok {
		return strconv.FormatFloat(x, 'g', -1, 64), true
	}
	return "", false
}

func binOf(s string) string {
	if strings.HasPrefix(s, "#b") {
		return s[2:]
	}
	if strings.HasPrefix(s, "#x") {
		var b strings.Builder
		for _, c := range s[2:] {
			n, _ := strconv.ParseUint(string(c), 16, 8)
			fmt.Fprintf(&b, "%04b", n)
		}
		return b.String()
	}
	return s
}

func realValue(v string) (float64, bool) {
	v = strings.TrimSpace(v)
	if strings.HasPrefix(v, "(-") {
		x, ok := realValue(strings.TrimSpace(v[2 : len(v)-1]))
		return -x, ok
	}
	if strings.HasPrefix(v, "(/") {
		parts := sexprSplit(v[2 : len(v)-1])
		if len(parts) == 2 {
			a, ok1 := realValue(parts[0])
			b, ok2 := realValue(parts[1])
			if ok1 && ok2 && b != 0 {
				return a / b, true
			}
		}
		return 0, false
	}
	x, err := strconv.ParseFloat(v, 64)
	if err != nil || math.IsNaN(x) {
		return 0, false
	}
	return x, true
}

// generic boundary driver ----------------------------------------------------------------------------------

// tryReplay builds and runs a test for a failed obligation with a model. Only panics are
// recognised generically (safety obligations); other kinds are replayed by specific drivers.
func tryReplay(o *Obligation, _ map[string]string, repo, workdir string) *ReplayResult {
	c := o.Ctx
	if c == nil || c.fn == nil {
		return &ReplayResult{Kind: "none", Why: "no function context"}
	}
	model := o.modelFor(10*time.Second, workdir)
	if model == nil {
		// no model (quantified context): an entry-level driver written for this function may still replay the
		// scenario the obligation is about; it must demonstrate the misbehaviour on the real code to count
		if rr := customReplay(o, map[string]string{}, repo, workdir); rr != nil {
			if !rr.Reproduced {
				rr.Why = "no witness values obtained from the solver; the function's scenario driver did not misbehave"
			}
			return rr
		}
		return &ReplayResult{Kind: "none", Why: "no witness values obtained from the solver"}
	}
	fn := c.fn
	if rr := customReplay(o, model, repo, workdir); rr != nil {
		return rr
	}
	if fn.Parent() != nil || len(fn.FreeVars) > 0 {
		return &ReplayResult{Kind: "none", Why: "closure: no boundary driver (captured variables cannot be rebuilt from outside)", Log: modelText(model)}
	}
	if o.Kind != "safety" {
		return &ReplayResult{Kind: "none", Why: "only panics are replayed by the generic boundary driver; this obligation is of kind " + o.Kind, Log: modelText(model)}
	}
	src, err := genBoundaryTest(c, fn, model)
	if err != nil {
		return &ReplayResult{Kind: "none", Why: err.Error(), Log: modelText(model)}
	}
	pkgDir := filepath.Dir(c.eng.fset.Position(fn.Pos()).Filename)
	testFile := filepath.Join(workdir, "zz_replay_"+sanitize(fn.Name())+"_test.go")
	os.WriteFile(testFile, []byte(src), 0o644)
	ov := filepath.Join(workdir, "ov_"+sanitize(fn.Name())+".json")
	ovData, _ := json.Marshal(map[string]map[string]string{"Replace": {filepath.Join(pkgDir, "zz_replay_test.go"): testFile}})
	os.WriteFile(ov, ovData, 0o644)
	rel, _ := filepath.Rel(repo, pkgDir)
	cmd := exec.Command("bash", "-c", fmt.Sprintf("ulimit -v 8000000; cd %s && go test -overlay %s -vet=off -timeout 60s -count=1 -run '^TestZZReplay$' ./%s", repo, ov, rel))
	cmd.Env = append(goEnv(), "GOFLAGS=-mod=mod")
	out, _ := cmd.CombinedOutput()
	log := string(out)
	if len(log) > 3000 {
		log = log[:3000]
	}
	rr := &ReplayResult{Kind: "boundary", Log: modelText(model) + "\n--- go test ---\n" + log, Test: src, Pkg: rel}
	rr.Reproduced = strings.Contains(log, "REPLAY-PANIC")
	if !rr.Reproduced {
		if strings.Contains(log, "REPLAY-NOPANIC") {
			rr.Why = "the real code did not panic on the state built from the model (the model may use parts of the state the driver cannot rebuild)"
		} else {
			rr.Why = "the replay test did not build or run"
		}
	}
	return rr
}

func runStoredTest(rr *ReplayResult, repo, workdir string) string {
	testFile := filepath.Join(workdir, "zz_replay_test.go")
	os.WriteFile(testFile, []byte(rr.Test), 0o644)
	ov := filepath.Join(workdir, "ov.json")
	ovData, _ := json.Marshal(map[string]map[string]string{"Replace": {filepath.Join(repo, rr.Pkg, "zz_replay_test.go"): testFile}})
	os.WriteFile(ov, ovData, 0o644)
	cmd := exec.Command("bash", "-c", fmt.Sprintf("ulimit -v 8000000; cd %s && go test -overlay %s -vet=off -timeout 60s -count=1 -run '^TestZZReplay$' ./%s", repo, ov, rr.Pkg))
	cmd.Env = append(goEnv(), "GOFLAGS=-mod=mod")
	out, _ := cmd.CombinedOutput()
	return string(out)
}

func modelText(m map[string]string) string {
	var ks []string
	for k := range m {
		ks = append(ks, k)
	}
	sort.Strings(ks)
	var b bytes.Buffer
	for _, k := range ks {
		v := m[k]
		if len(v) > 400 {
			v = v[:400] + "…"
		}
		fmt.Fprintf(&b, "%s = %s\n", k, v)
	}
	return b.String()
}

// genBoundaryTest renders a test that rebuilds the parameters from the model and calls fn.
func genBoundaryTest(c *FnCtx, fn *ssa.Function, model map[string]string) (string, error) {
	pkg := fn.Pkg.Pkg
	g := &testGen{c: c, pkg: pkg, model: model, imports: map[string]string{"testing": "", "fmt": ""}}
	var args []string
	for _, p := range fn.Params {
		e, err := g.build(p.Name(), p.Type(), 0)
		if err != nil {
			return "", err
		}
		args = append(args, e)
	}
	var call string
	if fn.Signature.Recv() != nil {
		call = fmt.Sprintf("(%s).%s(%s)", args[0], fn.Name(), strings.Join(args[1:], ", "))
	} else {
		call = fmt.Sprintf("%s(%s)", fn.Name(), strings.Join(args, ", "))
	}
	var b bytes.Buffer
	fmt.Fprintf(&b, "package %s\n\nimport (\n", pkg.Name())
	var imps []string
	for path := range g.imports {
		imps = append(imps, path)
	}
	sort.Strings(imps)
	for _, path := range imps {
		if alias := g.imports[path]; alias != "" {
			fmt.Fprintf(&b, "\t%s %q\n", alias, path)
		} else {
			fmt.Fprintf(&b, "\t%q\n", path)
		}
	}
	b.WriteString(")\n\nvar _ = fmt.Sprint\n\n")
	b.WriteString("// generated by gvc from a solver model; boundary driver\n")
	b.WriteString("func TestZZReplay(t *testing.T) {\n")
	for _, s := range g.stmts {
		b.WriteString("\t" + s + "\n")
	}
	b.WriteString("\tdefer func() {\n\t\tif r := recover(); r != nil {\n\t\t\tt.Fatalf(\"REPLAY-PANIC: %v\", r)\n\t\t}\n\t}()\n")
	b.WriteString("\t" + call + "\n")
	b.WriteString("\tt.Log(\"REPLAY-NOPANIC\")\n}\n")
	return b.String(), nil
}

type testGen struct {
	c       *FnCtx
	pkg     *types.Package
	model   map[string]string
	imports map[string]string
	stmts   []string
	n       int
}

func (g *testGen) typeStr(t types.Type) string {
	return types.TypeString(t, func(p *types.Package) string {
		if p == g.pkg {
			return ""
		}
		g.imports[p.Path()] = ""
		return p.Name()
	})
}

func (g *testGen) build(path string, t types.Type, depth int) (string, error) {
	switch u := t.Underlying().(type) {
	case *types.Basic:
		switch {
		case u.Info()&types.IsInteger != 0:
			if v, ok := g.model[path]; ok {
				if s, ok := goInt(v, t); ok {
					return fmt.Sprintf("%s(%s)", g.typeStr(t), s), nil
				}
			}
			return fmt.Sprintf("%s(0)", g.typeStr(t)), nil
		case u.Info()&types.IsBoolean != 0:
			if g.model[path] == "true" {
				return "true", nil
			}
			return "false", nil
		case u.Info()&types.IsFloat != 0:
			if v, ok := g.model[path]; ok {
				if s, ok := goFloat(v); ok {
					if strings.Contains(s, "math.") {
						g.imports["math"] = ""
					}
					return fmt.Sprintf("%s(%s)", g.typeStr(t), s), nil
				}
			}
			return fmt.Sprintf("%s(0)", g.typeStr(t)), nil
		case u.Info()&types.IsString != 0:
			n := int64(0)
			if v, ok := g.model["len("+path+")"]; ok {
				n, _ = smtIntValue(v)
			}
			if n > 1<<16 {
				return "", fmt.Errorf("model string too long to rebuild")
			}
			g.imports["strings"] = ""
			return fmt.Sprintf("%s(strings.Repeat(\"a\", %d))", g.typeStr(t), n), nil
		}
	case *types.Slice:
		n, cp := int64(0), int64(0)
		if v, ok := g.model["len("+path+")"]; ok {
			n, _ = smtIntValue(v)
		}
		if v, ok := g.model["cap("+path+")"]; ok {
			cp, _ = smtIntValue(v)
		}
		if cp < n {
			cp = n
		}
		if cp > n+64 {
			cp = n + 64
		}
		if n > 1<<20 {
			return "", fmt.Errorf("model slice too long to rebuild")
		}
		g.n++
		name := fmt.Sprintf("v%d", g.n)
		g.stmts = append(g.stmts, fmt.Sprintf("%s := make(%s, %d, %d)", name, g.typeStr(t), n, cp))
		if cp == 0 && n == 0 {
			// keep nil-ness when the model does not care
		}
		if elems, ok := g.model[path+"[...]"]; ok && elems != "" {
			et := u.Elem()
			for i, ev := range strings.Split(elems, ",") {
				var lit string
				if isFloat(et) {
					s, ok := goFloat(ev)
					if !ok {
						continue
					}
					if strings.Contains(s, "math.") {
						g.imports["math"] = ""
					}
					lit = s
				} else {
					s, ok := goInt(ev, et)
					if !ok {
						continue
					}
					lit = s
				}
				if lit != "0" {
					g.stmts = append(g.stmts, fmt.Sprintf("%s[%d] = %s(%s)", name, i, g.typeStr(et), lit))
				}
			}
		}
		return name, nil
	case *types.Pointer:
		stT, ok := u.Elem().Underlying().(*types.Struct)
		if !ok {
			return "nil", nil
		}
		if v, ok := g.model[path+"!=nil"]; ok && v == "false" {
			return "nil", nil
		}
		if depth > 2 {
			return fmt.Sprintf("new(%s)", g.typeStr(u.Elem())), nil
		}
		g.n++
		name := fmt.Sprintf("v%d", g.n)
		g.stmts = append(g.stmts, fmt.Sprintf("%s := new(%s)", name, g.typeStr(u.Elem())))
		named, _ := u.Elem().(*types.Named)
		samePkg := named != nil && named.Obj().Pkg() == g.pkg
		for i := 0; i < stT.NumFields(); i++ {
			f := stT.Field(i)
			if !f.Exported() && !samePkg {
				continue
			}
			if _, isFn := f.Type().Underlying().(*types.Signature); isFn {
				continue
			}
			if _, isIf := f.Type().Underlying().(*types.Interface); isIf {
				continue
			}
			if _, isCh := f.Type().Underlying().(*types.Chan); isCh {
				continue
			}
			if _, isMap := f.Type().Underlying().(*types.Map); isMap {
				if v, ok := g.model[path+"."+f.Name()+"!=nil"]; ok && v == "true" {
					g.stmts = append(g.stmts, fmt.Sprintf("%s.%s = %s{}", name, f.Name(), g.typeStr(f.Type())))
				}
				continue
			}
			if special := g.specialField(u.Elem(), f); special != "" {
				g.stmts = append(g.stmts, fmt.Sprintf("%s.%s = %s", name, f.Name(), special))
				continue
			}
			e, err := g.build(path+"."+f.Name(), f.Type(), depth+1)
			if err != nil {
				return "", err
			}
			g.stmts = append(g.stmts, fmt.Sprintf("%s.%s = %s", name, f.Name(), e))
		}
		return name, nil
	case *types.Map:
		if v, ok := g.model[path+"!=nil"]; ok && v == "true" {
			return g.typeStr(t) + "{}", nil
		}
		return "nil", nil
	case *types.Struct:
		return g.typeStr(t) + "{}", nil
	case *types.Interface:
		return "nil", nil
	case *types.Signature, *types.Chan:
		return "nil", nil
	}
	return "", fmt.Errorf("cannot rebuild a value of type %s", t)
}

// specialField: components that must be real library objects.
func (g *testGen) specialField(st types.Type, f *types.Var) string {
	if strings.HasSuffix(f.Type().String(), "internal/pool.MetricPool") {
		g.imports["github.com/atlassian/gostatsd/internal/pool"] = ""
		return "pool.NewMetricPool(0)"
	}
	return ""
}

// custom (entry-level) drivers: /verif/replay/drivers/<function>.go.tmpl, a Go test template
// rendered with the model; helper functions: int, float, floats, bytes, has.
// hasScenarioDriver: a driver template exists for the obligation's function (it can replay the function's scenario
// on the real code even when the solver gave no model).
func hasScenarioDriver(o *Obligation) bool {
	_, err := os.Stat(filepath.Join(verifRoot(), "replay", "drivers", sanitize(shortFn(o.Ctx.fn))+".go.tmpl"))
	return err == nil
}

func customReplay(o *Obligation, model map[string]string, repo, workdir string) *ReplayResult {
	c := o.Ctx
	name := sanitize(shortFn(c.fn))
	tf := filepath.Join(verifRoot(), "replay", "drivers", name+".go.tmpl")
	data, err := os.ReadFile(tf)
	if err != nil {
		return nil
	}
	funcs := template.FuncMap{
		"has": func(k string) bool { _, ok := model[k]; return ok },
		"int": func(k string) string {
			if s, ok := goInt(model[k], nil); ok {
				return s
			}
			return "0"
		},
		"float": func(k string) string {
			if s, ok := goFloat(model[k]); ok {
				return s
			}
			return "0"
		},
		"floats": func(k string) string {
			n, _ := smtIntValue(model["len("+k+")"])
			vs := strings.Split(model[k+"[...]"], ",")
			var out []string
			for i := int64(0); i < n && i < 4096; i++ {
				lit := "0"
				if int(i) < len(vs) {
					if s, ok := goFloat(vs[i]); ok {
						lit = s
					}
				}
				out = append(out, lit)
			}
			return "[]float64{" + strings.Join(out, ", ") + "}"
		},
		"bytes": func(k string) string {
			n, _ := smtIntValue(model["len("+k+")"])
			vs := strings.Split(model[k+"[...]"], ",")
			var out []string
			for i := int64(0); i < n && i < 65536; i++ {
				lit := "0"
				if int(i) < len(vs) {
					if s, ok := goInt(vs[i], nil); ok {
						lit = s
					}
				}
				out = append(out, lit)
			}
			return "[]byte{" + strings.Join(out, ", ") + "}"
		},
		"obligation": func() string { return o.Name },
	}
	t, err := template.New("drv").Funcs(funcs).Parse(string(data))
	if err != nil {
		return &ReplayResult{Kind: "none", Why: "driver template: " + err.Error(), Log: modelText(model)}
	}
	var b bytes.Buffer
	if err := t.Execute(&b, model); err != nil {
		return &ReplayResult{Kind: "none", Why: "driver template: " + err.Error(), Log: modelText(model)}
	}
	p := c.fn
	for p.Pkg == nil && p.Parent() != nil {
		p = p.Parent()
	}
	pkgDir := filepath.Dir(c.eng.fset.Position(p.Pos()).Filename)
	rel, _ := filepath.Rel(repo, pkgDir)
	rr := &ReplayResult{Kind: "entry", Test: b.String(), Pkg: rel}
	out := runStoredTest(rr, repo, workdir)
	if len(out) > 3000 {
		out = out[:3000]
	}
	rr.Log = modelText(model) + "\n--- go test ---\n" + out
	rr.Reproduced = strings.Contains(out, "REPLAY-PANIC") || strings.Contains(out, "REPLAY-VIOLATION")
	if !rr.Reproduced {
		rr.Why = "the real code did not misbehave on the input built from the model"
	}
	return rr
}
