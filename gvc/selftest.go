package main

// Must-fail corpus: deliberate property-breaking edits (and negative controls) applied in
// memory through the loader overlay; every mutant must make a named obligation fail, every
// control must leave all obligations discharged.

import (
	"encoding/json"
	"flag"
	"fmt"
	"os"
	"path/filepath"
	"sort"
	"strings"
	"sync"
	"time"
)

type Mutant struct {
	Name    string   `json:"name"`
	File    string   `json:"file"` // relative to the repository
	Old     string   `json:"old"`
	New     string   `json:"new"`
	Expect  []string `json:"expect"`  // substrings of obligation names, at least one must fail
	Control bool     `json:"control"` // negative control: nothing may fail
	Why     string   `json:"why,omitempty"`
	Append  string   `json:"append,omitempty"` // text added at the end of the file (a helper the edit needs)
}

func loadMutants(id string) []Mutant {
	data, err := os.ReadFile(filepath.Join(verifRoot(), "selftest", "mutants", id+".json"))
	if err != nil {
		return nil
	}
	var ms []Mutant
	if err := json.Unmarshal(data, &ms); err != nil {
		fmt.Fprintln(os.Stderr, "selftest/mutants/"+id+".json:", err)
		os.Exit(2)
	}
	return ms
}

// runSelftest returns the number of mutants run and the names of those that behaved wrongly.
func runSelftest(id, repo string, verbose bool) (int, []string) {
	ps, err := loadProp(id)
	if err != nil {
		return 0, []string{err.Error()}
	}
	var bad []string
	var mu sync.Mutex
	addBad := func(s string) { mu.Lock(); bad = append(bad, s); mu.Unlock() }
	ms := loadMutants(id)
	var wg sync.WaitGroup
	sem := make(chan struct{}, 3)
	for _, m := range ms {
		wg.Add(1)
		go func(m Mutant) {
			defer wg.Done()
			sem <- struct{}{}
			defer func() { <-sem }()
			file := filepath.Join(repo, m.File)
			src, err := os.ReadFile(file)
			if err != nil {
				addBad(m.Name + ": " + err.Error())
				return
			}
			if strings.Count(string(src), m.Old) != 1 {
				addBad(fmt.Sprintf("%s: pattern occurs %d times in %s (must be exactly once)", m.Name, strings.Count(string(src), m.Old), m.File))
				return
			}
			mut := strings.Replace(string(src), m.Old, m.New, 1) + m.Append
			res := runProperty(ps, repo, map[string][]byte{file: []byte(mut)}, RunOpts{Timeout: 20 * time.Second, Agree: 1, NoRetry: !m.Control, NoRelaxed: true})
			var failed []string
			if res.LoadError != "" {
				addBad(m.Name + ": mutant does not load: " + firstLines(res.LoadError, 3))
				return
			}
			for _, o := range res.Counted {
				if !o.ok() {
					failed = append(failed, o.Name)
				}
			}
			for _, o := range res.Covers {
				if !o.ok() {
					failed = append(failed, o.Name) // a vacuous function is reported by the check as well
				}
			}
			for _, mm := range res.Missing {
				failed = append(failed, "bind/function "+mm)
			}
			if res.Workdir != "" {
				os.RemoveAll(res.Workdir)
			}
			// failures already present on the unchanged tree (known findings) do not count
			known := loadKnown()
			var fresh []string
			for _, f := range failed {
				isKnown := false
				for _, k := range known {
					if k.Property == id && k.Status == "known" && oblBase(k.Obligation) == oblBase(f) {
						isKnown = true
					}
				}
				if !isKnown {
					fresh = append(fresh, f)
				}
			}
			if m.Control {
				if len(fresh) > 0 {
					addBad(fmt.Sprintf("%s: negative control raised %v", m.Name, fresh))
				}
			} else {
				hit := false
				for _, f := range fresh {
					if len(m.Expect) == 0 {
						hit = true
					}
					for _, ex := range m.Expect {
						if strings.Contains(f, ex) {
							hit = true
						}
					}
				}
				if !hit {
					addBad(fmt.Sprintf("%s: expected a failing obligation matching %v, failing: %v", m.Name, m.Expect, fresh))
				}
			}
			if verbose {
				fmt.Printf("  mutant %-40s control=%v failing=%d %v\n", m.Name, m.Control, len(fresh), firstN(fresh, 3))
			}
		}(m)
	}
	wg.Wait()
	sort.Strings(bad)
	return len(ms), bad
}

func firstN(xs []string, n int) []string {
	if len(xs) > n {
		return xs[:n]
	}
	return xs
}

func cmdSelftest(args []string) {
	fs := flag.NewFlagSet("selftest", flag.ExitOnError)
	repo := fs.String("repo", "/repo", "repository")
	prop := fs.String("property", "", "property id (default: all with a corpus)")
	fs.Parse(args)
	var ids []string
	if *prop != "" {
		ids = []string{*prop}
	} else {
		files, _ := filepath.Glob(filepath.Join(verifRoot(), "selftest", "mutants", "*.json"))
		for _, f := range files {
			ids = append(ids, strings.TrimSuffix(filepath.Base(f), ".json"))
		}
	}
	exit := 0
	for _, id := range ids {
		n, bad := runSelftest(id, *repo, true)
		fmt.Printf("selftest %s: %d mutants, %d wrong\n", id, n, len(bad))
		for _, b := range bad {
			fmt.Println("  WRONG:", b)
			exit = 1
		}
	}
	os.Exit(exit)
}

// cmdReplay re-runs the test stored in a replay file.
func cmdReplay(args []string) {
	if len(args) < 1 {
		usage()
	}
	data, err := os.ReadFile(args[0])
	if err != nil {
		fmt.Fprintln(os.Stderr, err)
		os.Exit(2)
	}
	var rf ReplayFile
	if err := json.Unmarshal(data, &rf); err != nil {
		fmt.Fprintln(os.Stderr, err)
		os.Exit(2)
	}
	fmt.Printf("obligation: %s\nkind: %s  function: %s  at: %s\nsolver: %s %v\nnote: %s\n", rf.Obligation, rf.Kind, rf.Function, rf.Position, rf.Status, rf.Solvers, rf.Note)
	if rf.Replay == nil || rf.Replay.Test == "" {
		fmt.Println("no replayable test is stored for this violation (no-failing-input-found); solver output:")
		fmt.Println(rf.SolverOut)
		if rf.Replay != nil {
			fmt.Println(rf.Replay.Why)
			fmt.Println(rf.Replay.Log)
		}
		os.Exit(1)
	}
	wd := workdir()
	defer os.RemoveAll(wd)
	rr := runStoredTest(rf.Replay, "/repo", wd)
	fmt.Println(rr)
	if strings.Contains(rr, "REPLAY-PANIC") {
		fmt.Println("reproduced on the real code")
		os.Exit(1)
	}
	os.Exit(0)
}
