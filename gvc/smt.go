package main

// SMT-LIB script construction and solver racing.

import (
	"runtime"
	"bytes"
	"crypto/sha1"
	"go/types"
	"context"
	"fmt"
	"os"
	"os/exec"
	"path/filepath"
	"regexp"
	"sort"
	"strings"
	"sync"
	"time"
)

// Script accumulates the sorts, declarations, definitions and assumptions produced while one
// function is executed symbolically. Every obligation of that function is a query
// "everything in the script  ∧  reach  ∧  ¬goal" which must be unsat.
type Script struct {
	datatypes []string          // declare-datatypes commands, in dependency order
	dtSeen    map[string]bool   // datatype sort names already declared
	items     []scriptItem      // declarations / definitions / assumptions in emission order
	declared  map[string]string // symbol -> sort (for declare-const / define-fun symbols)
	nextID    int
	defs      map[string]string
	curScope  int
	byBody    map[string]string
	scopes    []scopeInfo // index = scope id; entry 0 is the root
}

type scopeInfo struct {
	parent int
	clean  bool // the loop is left only from its header: facts about body states are irrelevant after it
}

type scriptItem struct {
	scope int // loop-body scope the assumption was made in (0 = none)
	kind string // "decl", "def", "assume", "raw"
	name string
	sort string
	body string
	note string
}

func newScript() *Script {
	return &Script{dtSeen: map[string]bool{}, declared: map[string]string{}}
}

func (s *Script) fresh(prefix string) string {
	s.nextID++
	return fmt.Sprintf("%s!%d", sanitize(prefix), s.nextID)
}

var sanRe = regexp.MustCompile(`[^A-Za-z0-9_.$]`)

func sanitize(s string) string { return sanRe.ReplaceAllString(s, "_") }

// declare introduces an unconstrained constant.
func (s *Script) declare(name, sort string) string {
	if _, ok := s.declared[name]; ok {
		return name
	}
	s.declared[name] = sort
	s.items = append(s.items, scriptItem{kind: "decl", name: name, sort: sort})
	return name
}

func (s *Script) declareFresh(prefix, sort string) string {
	return s.declare(s.fresh(prefix), sort)
}

// declareFun introduces an uninterpreted function.
func (s *Script) declareFun(name string, args []string, ret string) {
	if _, ok := s.declared[name]; ok {
		return
	}
	s.declared[name] = "fun"
	s.items = append(s.items, scriptItem{kind: "raw", name: name,
		body: fmt.Sprintf("(declare-fun %s (%s) %s)", name, strings.Join(args, " "), ret)})
}

// define names a term; the definition is total, so it is sound to keep it unconditionally.
func (s *Script) define(prefix, sort, body string) string {
	// do not rename atoms
	if isAtom(body) {
		return body
	}
	// identical terms share one name (hash-consing): keeps queries small and lets syntactic
	// matching (e.g. squares) see through repeated loads
	if s.byBody == nil {
		s.byBody = map[string]string{}
	}
	key := sort + "|" + body
	if n, ok := s.byBody[key]; ok {
		return n
	}
	name := s.fresh(prefix)
	s.byBody[key] = name
	s.declared[name] = sort
	if strings.Contains(body, "(ite ") && sort != "Bool" {
		// terms with conditionals are named by a constant and an equation rather than a macro:
		// macros are expanded inside quantifier patterns, and patterns may not contain ite
		s.items = append(s.items, scriptItem{kind: "decl", name: name, sort: sort})
		s.items = append(s.items, scriptItem{kind: "assume", body: "(= " + name + " " + body + ")", note: "", scope: 0})
		if s.defs == nil {
			s.defs = map[string]string{}
		}
		return name
	}
	s.items = append(s.items, scriptItem{kind: "def", name: name, sort: sort, body: body})
	if s.defs == nil {
		s.defs = map[string]string{}
	}
	s.defs[name] = body
	return name
}

// sliceParts looks through definitions for a literal (mk_slice base off len cap).
func (s *Script) sliceParts(t string) (base, off, ln, cp string, ok bool) {
	for i := 0; i < 4; i++ {
		if b, isDef := s.defs[t]; isDef {
			t = b
		} else {
			break
		}
	}
	if !strings.HasPrefix(t, "(mk_slice ") {
		return "", "", "", "", false
	}
	parts := sexprSplit(t[len("(mk_slice ") : len(t)-1])
	if len(parts) != 4 {
		return "", "", "", "", false
	}
	return parts[0], parts[1], parts[2], parts[3], true
}

func slOff(s *Script, t string) string {
	if _, off, _, _, ok := s.sliceParts(t); ok {
		return off
	}
	return app("sl_off", t)
}

func slBase(s *Script, t string) string {
	if b, _, _, _, ok := s.sliceParts(t); ok {
		return b
	}
	return app("sl_base", t)
}

// add folds additions with the literal 0.
func add(a, b string) string {
	if a == "0" {
		return b
	}
	if b == "0" {
		return a
	}
	return app("+", a, b)
}

// elemIdx: absolute position of element i of a slice with offset off. The uninterpreted idx
// (axiom idx(o,i) = o+i) keeps arithmetic out of quantifier patterns.
func elemIdx(off, i string, refElems bool) string {
	if !refElems {
		return add(off, i) // bytes, numbers, strings: plain arithmetic (sub-slicing composes)
	}
	if off == "0" {
		return i
	}
	return app("idx", off, i)
}

// refElem: slices whose elements are references (pointers, maps, channels, ...) are indexed
// through idx so that quantified invariants over them have arithmetic-free patterns.
func refElem(t types.Type) bool {
	switch t.Underlying().(type) {
	case *types.Pointer, *types.Map, *types.Chan, *types.Interface, *types.Signature:
		return true
	}
	return false
}

func (s *Script) assume(fact, note string) {
	if fact == "true" {
		return
	}
	s.items = append(s.items, scriptItem{kind: "assume", body: fact, note: note, scope: s.curScope})
}

func (s *Script) raw(cmd string) {
	s.items = append(s.items, scriptItem{kind: "raw", body: cmd})
}

func (s *Script) datatype(sortName, cmd string) {
	if s.dtSeen[sortName] {
		return
	}
	s.dtSeen[sortName] = true
	s.datatypes = append(s.datatypes, cmd)
}

func isAtom(t string) bool {
	return !strings.ContainsAny(t, " ()")
}

const preludeRelaxed = `(set-option :produce-models true)
(set-logic ALL)
(declare-sort Str 0)
(declare-fun slen (Str) Int)
(declare-fun sbyte (Str Int) Int)
(declare-const str_empty Str)
(assert (= (slen str_empty) 0))
(declare-datatypes ((Slice 0)) (((mk_slice (sl_base Int) (sl_off Int) (sl_len Int) (sl_cap Int)))))
(declare-datatypes ((Ptr 0)) (((pnil) (pcell (pc_ref Int)) (pfield (pf_ref Int) (pf_id Int)) (pelem (pe_base Int) (pe_idx Int)))))
(define-fun tdiv ((a Int) (b Int)) Int (ite (>= a 0) (ite (> b 0) (div a b) (- (div a (- b)))) (ite (> b 0) (- (div (- a) b)) (div (- a) (- b)))))
(define-fun trem ((a Int) (b Int)) Int (- a (* b (tdiv a b))))
(define-fun imin ((a Int) (b Int)) Int (ite (<= a b) a b))
(define-fun imax ((a Int) (b Int)) Int (ite (>= a b) a b))
(define-fun idx ((o Int) (i Int)) Int (+ o i))
(declare-fun arr_ty (Int) Int)
(declare-fun cell_ty (Int) Int)
(declare-fun chan_ty (Int) Int)
`

const prelude = `(set-option :produce-models true)
(set-logic ALL)
(declare-sort Str 0)
(declare-fun slen (Str) Int)
(declare-fun sbyte (Str Int) Int)
(declare-const str_empty Str)
(assert (= (slen str_empty) 0))
(assert (forall ((s Str)) (! (and (>= (slen s) 0) (<= (slen s) 72057594037927936)) :pattern ((slen s)))))
(assert (forall ((s Str)) (! (=> (= (slen s) 0) (= s str_empty)) :pattern ((slen s)))))
(declare-datatypes ((Slice 0)) (((mk_slice (sl_base Int) (sl_off Int) (sl_len Int) (sl_cap Int)))))
(declare-datatypes ((Ptr 0)) (((pnil) (pcell (pc_ref Int)) (pfield (pf_ref Int) (pf_id Int)) (pelem (pe_base Int) (pe_idx Int)))))
(define-fun tdiv ((a Int) (b Int)) Int (ite (>= a 0) (ite (> b 0) (div a b) (- (div a (- b)))) (ite (> b 0) (- (div (- a) b)) (div (- a) (- b)))))
(define-fun trem ((a Int) (b Int)) Int (- a (* b (tdiv a b))))
(define-fun imin ((a Int) (b Int)) Int (ite (<= a b) a b))
(define-fun imax ((a Int) (b Int)) Int (ite (>= a b) a b))
(declare-fun idx (Int Int) Int)
(assert (forall ((o Int) (i Int)) (! (= (idx o i) (+ o i)) :pattern ((idx o i)))))
(declare-fun arr_ty (Int) Int)
(declare-fun cell_ty (Int) Int)
(declare-fun chan_ty (Int) Int)
`

// render produces the full text of a query. goalNeg is the negated goal (or "" for a
// satisfiability / cover query), reach the path condition.
func (s *Script) render(upto int, extra []string, getValues []string) string {
	return s.renderOpt(upto, extra, getValues, false)
}

// newScope opens a scope for the body of a loop.
func (s *Script) newScope(parent int, clean bool) int {
	if len(s.scopes) == 0 {
		s.scopes = append(s.scopes, scopeInfo{parent: -1, clean: false})
	}
	s.scopes = append(s.scopes, scopeInfo{parent: parent, clean: clean})
	return len(s.scopes) - 1
}

// visible: an assumption made inside the body of a cleanly exited loop is dropped from
// obligations outside that loop (dropping assumptions is always sound; the exit state of such
// a loop derives from the header state only).
func (s *Script) visible(assumeScope, oblScope int) bool {
	if assumeScope == 0 || len(s.scopes) == 0 {
		return true
	}
	for a := assumeScope; a > 0; a = s.scopes[a].parent {
		// is a an ancestor-or-self of oblScope?
		inside := false
		for o := oblScope; o > 0; o = s.scopes[o].parent {
			if o == a {
				inside = true
				break
			}
		}
		if !inside && s.scopes[a].clean {
			return false
		}
	}
	return true
}

// renderOpt with relaxed=true drops every quantified assumption: the query is weaker, so a
// model of it is only a candidate counterexample (it must be confirmed by replay).
func (s *Script) renderOpt(upto int, extra []string, getValues []string, relaxed bool) string {
	return s.renderScoped(upto, extra, getValues, relaxed, -1)
}

func (s *Script) renderScoped(upto int, extra []string, getValues []string, relaxed bool, oblScope int) string {
	var b bytes.Buffer
	if relaxed {
		b.WriteString(preludeRelaxed)
	} else {
		b.WriteString(prelude)
	}
	for _, d := range s.datatypes {
		b.WriteString(d)
		b.WriteByte('\n')
	}
	if upto < 0 || upto > len(s.items) {
		upto = len(s.items)
	}
	for _, it := range s.items[:upto] {
		switch it.kind {
		case "decl":
			fmt.Fprintf(&b, "(declare-const %s %s)\n", it.name, it.sort)
		case "def":
			fmt.Fprintf(&b, "(define-fun %s () %s %s)\n", it.name, it.sort, it.body)
		case "assume":
			if oblScope >= 0 && !s.visible(it.scope, oblScope) {
				continue
			}
			if relaxed && (strings.Contains(it.body, "(forall ") || strings.Contains(it.body, "(exists ")) && droppable(it.note) {
				continue
			}
			if it.note != "" {
				fmt.Fprintf(&b, "; %s\n", strings.ReplaceAll(it.note, "\n", " "))
			}
			fmt.Fprintf(&b, "(assert %s)\n", it.body)
		case "raw":
			b.WriteString(it.body)
			b.WriteByte('\n')
		}
	}
	for _, e := range extra {
		fmt.Fprintf(&b, "(assert %s)\n", e)
	}
	b.WriteString("(check-sat)\n")
	if len(getValues) > 0 {
		fmt.Fprintf(&b, "(get-value (%s))\n", strings.Join(getValues, " "))
	}
	return b.String()
}

// ---------------------------------------------------------------------------------------------
// term helpers

func and(ts ...string) string {
	var keep []string
	for _, t := range ts {
		if t == "true" || t == "" {
			continue
		}
		if t == "false" {
			return "false"
		}
		keep = append(keep, t)
	}
	switch len(keep) {
	case 0:
		return "true"
	case 1:
		return keep[0]
	}
	return "(and " + strings.Join(keep, " ") + ")"
}

func or(ts ...string) string {
	var keep []string
	for _, t := range ts {
		if t == "false" || t == "" {
			continue
		}
		if t == "true" {
			return "true"
		}
		keep = append(keep, t)
	}
	switch len(keep) {
	case 0:
		return "false"
	case 1:
		return keep[0]
	}
	return "(or " + strings.Join(keep, " ") + ")"
}

func not(t string) string {
	switch t {
	case "true":
		return "false"
	case "false":
		return "true"
	}
	if strings.HasPrefix(t, "(not ") && balanced(t[5:len(t)-1]) {
		return t[5 : len(t)-1]
	}
	return "(not " + t + ")"
}

func balanced(t string) bool {
	d := 0
	for i, c := range t {
		switch c {
		case '(':
			d++
		case ')':
			d--
			if d < 0 {
				return false
			}
			if d == 0 && i != len(t)-1 {
				return false
			}
		case ' ':
			if d == 0 {
				return false
			}
		}
	}
	return d == 0
}

func implies(a, b string) string {
	if a == "true" {
		return b
	}
	if a == "false" || b == "true" {
		return "true"
	}
	return "(=> " + a + " " + b + ")"
}

func eq(a, b string) string {
	if a == b {
		return "true"
	}
	return "(= " + a + " " + b + ")"
}

func ite(c, a, b string) string {
	if c == "true" {
		return a
	}
	if c == "false" {
		return b
	}
	if a == b {
		return a
	}
	return "(ite " + c + " " + a + " " + b + ")"
}

func app(f string, args ...string) string {
	return "(" + f + " " + strings.Join(args, " ") + ")"
}

func sel(arr, i string) string      { return "(select " + arr + " " + i + ")" }
func sto(arr, i, v string) string   { return "(store " + arr + " " + i + " " + v + ")" }
func intLit(n int64) string {
	if n < 0 {
		return fmt.Sprintf("(- %d)", -n)
	}
	return fmt.Sprintf("%d", n)
}

// ---------------------------------------------------------------------------------------------
// solver racing

type SolverResult struct {
	Status  string // "unsat", "sat", "unknown", "timeout", "error"
	Solver  string
	Seconds float64
	Output  string // full solver output (model / values / error)
	All     map[string]string
	Retried int // 0: decided in the first pass; n: decided in the n-th retry (longer time limit, other seeds)
}

type solverSpec struct {
	name string
	args []string
}

var solverSpecs = []solverSpec{
	{"z3-new", []string{"z3-new", "-smt2"}},
	{"z3", []string{"z3", "-smt2"}},
	{"cvc5", []string{"cvc5", "--lang=smt2", "--incremental"}},
}

var solverSem = make(chan struct{}, solverSlots())

// solverSlots: queries in flight at once over the whole process (each races three solver processes)
func solverSlots() int {
	n := runtime.NumCPU() / 3
	if n < 2 {
		n = 2
	}
	return n
}

// solve races the installed solvers on one query. A definite answer (unsat/sat) from any
// solver wins; if wantAgree > 1 the call waits until that many solvers have said unsat.
func solve(query string, timeout time.Duration, workdir string, tag string, wantAgree int) SolverResult {
	return solveSeeded(query, timeout, workdir, tag, wantAgree, 0)
}

// solveSeeded: as solve, with the solvers' random seeds set (seed 0 = the solvers' defaults).
func solveSeeded(query string, timeout time.Duration, workdir string, tag string, wantAgree int, seed int) SolverResult {
	solverSem <- struct{}{}
	defer func() { <-solverSem }()
	f := queryFile(workdir, tag)
	if err := os.WriteFile(f, []byte(query), 0o644); err != nil {
		return SolverResult{Status: "error", Output: err.Error()}
	}
	ctx, cancel := context.WithTimeout(context.Background(), timeout)
	defer cancel()
	type one struct {
		status, solver, out string
		secs                float64
	}
	ch := make(chan one, len(solverSpecs))
	var wg sync.WaitGroup
	for _, sp := range solverSpecs {
		wg.Add(1)
		go func(sp solverSpec) {
			defer wg.Done()
			t0 := time.Now()
			args := append([]string{}, sp.args[1:]...)
			switch sp.name {
			case "z3", "z3-new":
				args = append(args, fmt.Sprintf("-T:%d", int(timeout.Seconds())+1))
				if seed != 0 {
					args = append(args, fmt.Sprintf("smt.random_seed=%d", seed), fmt.Sprintf("sat.random_seed=%d", seed))
				}
			case "cvc5":
				args = append(args, fmt.Sprintf("--tlimit=%d", timeout.Milliseconds()))
				if seed != 0 {
					args = append(args, fmt.Sprintf("--seed=%d", seed))
				}
			}
			args = append(args, f)
			cmd := exec.CommandContext(ctx, sp.args[0], args...)
			out, _ := cmd.CombinedOutput()
			st := "unknown"
			first := strings.TrimSpace(strings.SplitN(string(out), "\n", 2)[0])
			switch {
			case first == "unsat":
				st = "unsat"
			case first == "sat":
				st = "sat"
			case first == "unknown":
				st = "unknown"
			case ctx.Err() != nil || strings.Contains(first, "timeout") || strings.Contains(string(out), "interrupted"):
				st = "timeout"
			case strings.Contains(string(out), "error") || strings.Contains(string(out), "Error"):
				st = "error"
			}
			ch <- one{st, sp.name, string(out), time.Since(t0).Seconds()}
		}(sp)
	}
	go func() { wg.Wait(); close(ch) }()
	res := SolverResult{Status: "unknown", All: map[string]string{}}
	unsatN := 0
	var firstUnsat *one
	for o := range ch {
		o := o
		res.All[o.solver] = fmt.Sprintf("%s %.2fs", o.status, o.secs)
		switch o.status {
		case "unsat":
			unsatN++
			if firstUnsat == nil {
				firstUnsat = &o
			}
			if unsatN >= wantAgree {
				cancel()
				res.Status, res.Solver, res.Seconds, res.Output = "unsat", firstUnsat.solver, firstUnsat.secs, firstUnsat.out
				go func() {
					for range ch {
					}
				}()
				if !keepQueries {
					os.Remove(f)
				}
				return res
			}
		case "sat":
			cancel()
			res.Status, res.Solver, res.Seconds, res.Output = "sat", o.solver, o.secs, o.out
			go func() {
				for range ch {
				}
			}()
			return res
		case "error":
			if res.Status == "unknown" && res.Output == "" {
				res.Output = o.solver + ": " + firstLines(o.out, 5)
			}
			if res.Solver == "" {
				res.Status = "unknown"
			}
		case "timeout":
			if res.Status != "unsat" {
				res.Status = "timeout"
			}
		}
	}
	if firstUnsat != nil {
		res.Status, res.Solver, res.Seconds, res.Output = "unsat", firstUnsat.solver, firstUnsat.secs, firstUnsat.out
		if !keepQueries {
			os.Remove(f)
		}
	}
	return res
}

var keepQueries = false

func firstLines(s string, n int) string {
	ls := strings.Split(s, "\n")
	if len(ls) > n {
		ls = ls[:n]
	}
	return strings.Join(ls, "\n")
}

// parseValues parses the answer of (get-value (...)) into term -> value text.
func parseValues(out string) map[string]string {
	m := map[string]string{}
	i := strings.Index(out, "\n")
	if i < 0 {
		return m
	}
	body := strings.TrimSpace(out[i+1:])
	// body is ((t v) (t v) ...)
	toks := sexprSplit(body)
	if len(toks) != 1 {
		return m
	}
	inner := strings.TrimSpace(toks[0])
	if len(inner) < 2 {
		return m
	}
	for _, pair := range sexprSplit(inner[1 : len(inner)-1]) {
		p := strings.TrimSpace(pair)
		if len(p) < 2 {
			continue
		}
		kv := sexprSplit(p[1 : len(p)-1])
		if len(kv) == 2 {
			m[strings.TrimSpace(kv[0])] = strings.TrimSpace(kv[1])
		}
	}
	return m
}

// sexprSplit splits a string into its top-level s-expressions.
func sexprSplit(s string) []string {
	var out []string
	d, start := 0, -1
	inBar := false
	for i := 0; i < len(s); i++ {
		c := s[i]
		if inBar {
			if c == '|' {
				inBar = false
				if d == 0 {
					out = append(out, s[start:i+1])
					start = -1
				}
			}
			continue
		}
		switch c {
		case '|':
			inBar = true
			if d == 0 && start < 0 {
				start = i
			}
		case '(':
			if d == 0 && start < 0 {
				start = i
			}
			d++
		case ')':
			d--
			if d == 0 && start >= 0 {
				out = append(out, s[start:i+1])
				start = -1
			}
		case ' ', '\n', '\t', '\r':
			if d == 0 && start >= 0 {
				out = append(out, s[start:i])
				start = -1
			}
		default:
			if d == 0 && start < 0 {
				start = i
			}
		}
	}
	if start >= 0 {
		out = append(out, s[start:])
	}
	return out
}

// smtIntValue turns "5", "(- 5)" into an int64 (ok=false otherwise).
func smtIntValue(v string) (int64, bool) {
	v = strings.TrimSpace(v)
	neg := false
	if strings.HasPrefix(v, "(-") {
		neg = true
		v = strings.TrimSpace(strings.TrimSuffix(strings.TrimPrefix(v, "(-"), ")"))
	}
	var n int64
	if _, err := fmt.Sscanf(v, "%d", &n); err != nil {
		return 0, false
	}
	if neg {
		n = -n
	}
	return n, true
}

func sortedKeys[V any](m map[string]V) []string {
	ks := make([]string, 0, len(m))
	for k := range m {
		ks = append(ks, k)
	}
	sort.Strings(ks)
	return ks
}

// droppable: quantified axioms generated by the engine (library models, frames, array
// contents). Quantified facts written by the user (preconditions, invariants, assumed
// postconditions) are kept in relaxed queries so that candidate models respect them.
func droppable(note string) bool {
	for _, p := range []string{"append: contents", "copy: contents", "sort:", "bytes of string(b)", "substring", "range ends", "allocation only grows",
		"callee frame", "constant array", "[]byte(s)", "bytes.IndexByte first", "bytes.Equal", "loop frame invariant", "ghost counter", "axiom "} {
		if strings.HasPrefix(note, p) {
			return true
		}
	}
	return false
}

// queryFile: a unique, readable file name for a query.
func queryFile(workdir, tag string) string {
	h := sha1.Sum([]byte(tag))
	name := sanitize(tag)
	if len(name) > 120 {
		name = name[:120]
	}
	return filepath.Join(workdir, fmt.Sprintf("%s_%x.smt2", name, h[:5]))
}
