package main

// Mapping of Go types to SMT sorts, zero values, integer ranges.

import (
	"regexp"
	"sync"
	"fmt"
	"go/types"
	"math/big"
	"strings"
)

// sortOf returns the SMT sort that represents values of Go type t.
func (c *FnCtx) sortOf(t types.Type) string {
	switch u := t.Underlying().(type) {
	case *types.Basic:
		switch {
		case u.Info()&types.IsBoolean != 0:
			return "Bool"
		case u.Info()&types.IsInteger != 0:
			return "Int"
		case u.Info()&types.IsFloat != 0:
			return c.floatSort()
		case u.Info()&types.IsString != 0:
			return "Str"
		case u.Kind() == types.UnsafePointer:
			return "Int"
		case u.Kind() == types.UntypedNil:
			return "Int"
		}
		return "Int"
	case *types.Pointer:
		if _, ok := u.Elem().Underlying().(*types.Struct); ok {
			return "Int"
		}
		return "Ptr"
	case *types.Slice:
		return "Slice"
	case *types.Map, *types.Chan, *types.Signature, *types.Interface:
		return "Int"
	case *types.Struct:
		return c.structSort(t)
	case *types.Array:
		return "(Array Int " + c.sortOf(u.Elem()) + ")"
	case *types.Tuple:
		return "Int"
	}
	return "Int"
}

func (c *FnCtx) floatSort() string {
	if c.floatsIEEE {
		return "(_ FloatingPoint 11 53)"
	}
	return "Real"
}

// sortTag is a short identifier-safe name of a sort, used in heap names.
func sortTag(sort string) string {
	switch sort {
	case "(_ FloatingPoint 11 53)":
		return "F64"
	}
	r := strings.NewReplacer("(", "", ")", "", " ", "_")
	return sanitize(r.Replace(sort))
}

func typeName(t types.Type) string {
	if n, ok := t.(*types.Named); ok {
		if n.Obj().Pkg() != nil {
			p := n.Obj().Pkg().Path()
			if i := strings.LastIndex(p, "/"); i >= 0 {
				p = p[i+1:]
			}
			return p + "." + n.Obj().Name()
		}
		return n.Obj().Name()
	}
	if a, ok := t.(*types.Alias); ok {
		return typeName(types.Unalias(a))
	}
	return sanitize(t.String())
}

// structSort declares (once) the datatype of a struct type used by value.
func (c *FnCtx) structSort(t types.Type) string {
	st := t.Underlying().(*types.Struct)
	name := "S_" + sanitize(typeName(t))
	if st.NumFields() == 0 {
		name = "S_unit"
	}
	if c.smt.dtSeen[name] {
		return name
	}
	// declare field sorts first (dependencies)
	var fields []string
	for i := 0; i < st.NumFields(); i++ {
		f := st.Field(i)
		fs := c.sortOf(f.Type())
		fields = append(fields, fmt.Sprintf("(%s %s)", c.fieldAcc(name, f.Name(), i), fs))
	}
	if st.NumFields() == 0 {
		c.smt.datatype(name, fmt.Sprintf("(declare-datatypes ((%s 0)) (((mk_%s))))", name, name))
	} else {
		c.smt.datatype(name, fmt.Sprintf("(declare-datatypes ((%s 0)) (((mk_%s %s))))", name, name, strings.Join(fields, " ")))
	}
	return name
}

func (c *FnCtx) fieldAcc(sortName, field string, idx int) string {
	if field == "_" {
		field = fmt.Sprintf("blank%d", idx)
	}
	return "f_" + sortName + "_" + sanitize(field)
}

// structMk builds a struct value from field terms.
func (c *FnCtx) structMk(t types.Type, fields []string) string {
	s := c.structSort(t)
	if len(fields) == 0 {
		return "mk_" + s
	}
	return "(mk_" + s + " " + strings.Join(fields, " ") + ")"
}

func (c *FnCtx) structGet(t types.Type, v string, idx int) string {
	st := t.Underlying().(*types.Struct)
	s := c.structSort(t)
	return app(c.fieldAcc(s, st.Field(idx).Name(), idx), v)
}

func (c *FnCtx) structSet(t types.Type, v string, idx int, nv string) string {
	st := t.Underlying().(*types.Struct)
	var fs []string
	for i := 0; i < st.NumFields(); i++ {
		if i == idx {
			fs = append(fs, nv)
		} else {
			fs = append(fs, c.structGet(t, v, i))
		}
	}
	return c.structMk(t, fs)
}

// zero returns the zero value of a Go type as a term.
func (c *FnCtx) zero(t types.Type) string {
	switch u := t.Underlying().(type) {
	case *types.Basic:
		switch {
		case u.Info()&types.IsBoolean != 0:
			return "false"
		case u.Info()&types.IsInteger != 0:
			return "0"
		case u.Info()&types.IsFloat != 0:
			return c.floatLit(0)
		case u.Info()&types.IsString != 0:
			return "str_empty"
		}
		return "0"
	case *types.Pointer:
		if _, ok := u.Elem().Underlying().(*types.Struct); ok {
			return "0"
		}
		return "pnil"
	case *types.Slice:
		return "(mk_slice 0 0 0 0)"
	case *types.Struct:
		var fs []string
		for i := 0; i < u.NumFields(); i++ {
			fs = append(fs, c.zero(u.Field(i).Type()))
		}
		return c.structMk(t, fs)
	case *types.Array:
		return c.constArray("Int", c.sortOf(u.Elem()), c.zero(u.Elem()))
	}
	return "0"
}

func (c *FnCtx) floatLit(f float64) string {
	if c.floatsIEEE {
		if f == 0 {
			return "(_ +zero 11 53)"
		}
		r := new(big.Rat).SetFloat64(f)
		return fmt.Sprintf("((_ to_fp 11 53) RNE %s)", ratTerm(r))
	}
	r := new(big.Rat).SetFloat64(f)
	if r == nil {
		return "0.0"
	}
	return ratTerm(r)
}

func ratTerm(r *big.Rat) string {
	neg := r.Sign() < 0
	a := new(big.Rat).Abs(r)
	var s string
	if a.IsInt() {
		s = a.Num().String() + ".0"
	} else {
		s = fmt.Sprintf("(/ %s.0 %s.0)", a.Num().String(), a.Denom().String())
	}
	if neg {
		return "(- " + s + ")"
	}
	return s
}

// intRange returns the inclusive range of an integer type (ok=false for non-integers).
func intRange(t types.Type) (lo, hi *big.Int, ok bool) {
	b, isB := t.Underlying().(*types.Basic)
	if !isB || b.Info()&types.IsInteger == 0 {
		return nil, nil, false
	}
	bits, signed := intBits(b)
	if bits == 0 {
		return nil, nil, false
	}
	one := big.NewInt(1)
	if signed {
		hi = new(big.Int).Sub(new(big.Int).Lsh(one, uint(bits-1)), one)
		lo = new(big.Int).Neg(new(big.Int).Lsh(one, uint(bits-1)))
	} else {
		lo = big.NewInt(0)
		hi = new(big.Int).Sub(new(big.Int).Lsh(one, uint(bits)), one)
	}
	return lo, hi, true
}

func intBits(b *types.Basic) (int, bool) {
	switch b.Kind() {
	case types.Int8:
		return 8, true
	case types.Int16:
		return 16, true
	case types.Int32:
		return 32, true
	case types.Int64, types.Int:
		return 64, true
	case types.Uint8:
		return 8, false
	case types.Uint16:
		return 16, false
	case types.Uint32:
		return 32, false
	case types.Uint64, types.Uint, types.Uintptr:
		return 64, false
	case types.UntypedInt, types.UntypedRune:
		return 0, true
	}
	return 0, false
}

func bigTerm(n *big.Int) string {
	if n.Sign() < 0 {
		return "(- " + new(big.Int).Neg(n).String() + ")"
	}
	return n.String()
}

// wrap reduces a mathematical integer term to the range of integer type t.
func wrapTo(t types.Type, term string) string {
	b, ok := t.Underlying().(*types.Basic)
	if !ok {
		return term
	}
	bits, signed := intBits(b)
	if bits == 0 {
		return term
	}
	m := new(big.Int).Lsh(big.NewInt(1), uint(bits))
	if !signed {
		return fmt.Sprintf("(mod %s %s)", term, m.String())
	}
	h := new(big.Int).Lsh(big.NewInt(1), uint(bits-1))
	return fmt.Sprintf("(- (mod (+ %s %s) %s) %s)", term, h.String(), m.String(), h.String())
}

// rangeFact states that term lies in the range of its integer type.
func rangeFact(t types.Type, term string) string {
	lo, hi, ok := intRange(t)
	if !ok {
		return "true"
	}
	return fmt.Sprintf("(and (<= %s %s) (<= %s %s))", bigTerm(lo), term, term, bigTerm(hi))
}

// typeFacts returns the well-typedness constraints of a fresh value of type t
// (integer range, slice shape, struct fields recursively).
func (c *FnCtx) typeFacts(t types.Type, term string) string {
	switch u := t.Underlying().(type) {
	case *types.Basic:
		if u.Info()&types.IsInteger != 0 {
			return rangeFact(t, term)
		}
	case *types.Slice:
		// arr_ty: the Go element type of a backing array (type safety: a []T only ever points into an array of T, so
		// arrays of different Go element types are different arrays even when the elements share an SMT sort)
		return fmt.Sprintf("(and (<= 0 (sl_off %[1]s)) (<= 0 (sl_len %[1]s)) (<= (sl_len %[1]s) (sl_cap %[1]s)) (<= (sl_cap %[1]s) 72057594037927936) (<= (sl_off %[1]s) 72057594037927936) (>= (sl_base %[1]s) 0) (=> (= (sl_base %[1]s) 0) (= (sl_cap %[1]s) 0)) (=> (not (= (sl_base %[1]s) 0)) (= (arr_ty (sl_base %[1]s)) %[2]d)))", term, goTypeTag(u.Elem()))
	case *types.Struct:
		var fs []string
		for i := 0; i < u.NumFields(); i++ {
			fs = append(fs, c.typeFacts(u.Field(i).Type(), c.structGet(t, term, i)))
		}
		return and(fs...)
	case *types.Pointer:
		if _, ok := u.Elem().Underlying().(*types.Struct); ok {
			return "(>= " + term + " 0)"
		}
		// a pointer to a non-struct value is nil or denotes a heap cell, a slice/array element
		// or a struct field of exactly that type
		tag := fmt.Sprint(goTypeTag(u.Elem()))
		alts := []string{eq(term, "pnil"), and(app("(_ is pcell)", term), app(">", app("pc_ref", term), "0"), eq(app("cell_ty", app("pc_ref", term)), tag)),
			and(app("(_ is pelem)", term), app(">", app("pe_base", term), "0"), eq(app("arr_ty", app("pe_base", term)), tag))}
		if c.eng != nil {
			for _, fc := range c.eng.fieldsOfType(u.Elem()) {
				name, _ := c.fieldHeap(fc.st, fc.idx)
				alts = append(alts, and(app("(_ is pfield)", term), eq(app("pf_id", term), fmt.Sprint(c.fieldID(name))), app(">", app("pf_ref", term), "0")))
			}
		}
		return or(alts...)
	case *types.Chan:
		// chan_ty: channels of different element types are different channels
		return fmt.Sprintf("(and (>= %[1]s 0) (=> (not (= %[1]s 0)) (= (chan_ty %[1]s) %[2]d)))", term, goTypeTag(u.Elem()))
	case *types.Map, *types.Signature, *types.Interface:
		return "(>= " + term + " 0)"
	}
	return "true"
}

func isInteger(t types.Type) bool {
	b, ok := t.Underlying().(*types.Basic)
	return ok && b.Info()&types.IsInteger != 0
}
func isFloat(t types.Type) bool {
	b, ok := t.Underlying().(*types.Basic)
	return ok && b.Info()&types.IsFloat != 0
}
func isString(t types.Type) bool {
	b, ok := t.Underlying().(*types.Basic)
	return ok && b.Info()&types.IsString != 0
}
func isBool(t types.Type) bool {
	b, ok := t.Underlying().(*types.Basic)
	return ok && b.Info()&types.IsBoolean != 0
}
func isUnsigned(t types.Type) bool {
	b, ok := t.Underlying().(*types.Basic)
	return ok && b.Info()&types.IsUnsigned != 0
}
func structOf(t types.Type) *types.Struct {
	s, _ := t.Underlying().(*types.Struct)
	return s
}
func ptrToStruct(t types.Type) (types.Type, bool) {
	p, ok := t.Underlying().(*types.Pointer)
	if !ok {
		return nil, false
	}
	if _, ok := p.Elem().Underlying().(*types.Struct); ok {
		return p.Elem(), true
	}
	return nil, false
}

// constArray: an array holding v everywhere. Solvers accept (as const ...) only for value
// terms, so for other element terms (the uninterpreted empty string) a quantified definition
// is used.
func (c *FnCtx) constArray(idxSort, elemSort, v string) string {
	if !strings.Contains(v, "str_empty") && !strings.Contains(v, "!") {
		return fmt.Sprintf("((as const (Array %s %s)) %s)", idxSort, elemSort, v)
	}
	key := idxSort + "|" + elemSort + "|" + v
	if a, ok := c.constArrays[key]; ok {
		return a
	}
	a := c.smt.declareFresh("constarr", fmt.Sprintf("(Array %s %s)", idxSort, elemSort))
	c.smt.assume(fmt.Sprintf("(forall ((i %s)) (! (= (select %s i) %s) :pattern ((select %s i))))", idxSort, a, v, a), "constant array")
	c.constArrays[key] = a
	return a
}

// goTypeTag numbers Go types (identical types get the same number).
var goTypeTags = map[string]int{}
var goTypeTagMu sync.Mutex

var aliasRE = regexp.MustCompile(`\b(byte|rune)\b`)

func goTypeTag(t types.Type) int {
	goTypeTagMu.Lock()
	defer goTypeTagMu.Unlock()
	k := aliasRE.ReplaceAllStringFunc(types.TypeString(t, nil), func(m string) string {
		if m == "byte" {
			return "uint8"
		}
		return "int32"
	}) // byte and rune are aliases: []byte and []uint8 are one type
	if n, ok := goTypeTags[k]; ok {
		return n
	}
	n := len(goTypeTags) + 1
	goTypeTags[k] = n
	return n
}
