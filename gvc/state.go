package main

// Symbolic state: local cells, heaps (Burstall–Bornat components), merging.

import (
	"fmt"
	"go/types"
	"sort"
	"strings"

	"golang.org/x/tools/go/ssa"
)

// Val is the engine-level value of an SSA register or a cell.
type Val struct {
	T     types.Type
	Term  string // SMT term of the value (may be "" for pure engine-level values such as addresses)
	Addr  *Addr  // statically known address (pointer values)
	Fn    *FnVal // statically known function value
	Tuple []Val
	Iter  *IterVal
	Dyn   *DynVal // interface value whose dynamic type and payload are statically known
}

type DynVal struct {
	T types.Type
	V Val
}

type FnVal struct {
	Fn        *ssa.Function
	Bindings  []Val  // closure free variables
	CreatedIn *State // snapshot of the state at MakeClosure (labels are evaluated there)
}

type IterVal struct {
	Map     Val
	Visited string // heap key of the ghost visited set
	KeyT    types.Type
	ValT    types.Type
	Str     bool
}

const (
	akLocal  = iota // non-escaping local cell
	akField         // field of a heap struct object
	akElem          // element of a slice/array backing store
	akCell          // heap cell holding a non-struct value (escaping local, new(T))
	akGlobal        // package-level variable
)

type PathStep struct {
	Field int
	Index string      // "" for a field step
	T     types.Type  // type of the container at this step
}

type Addr struct {
	Kind     int
	CellID   int
	Struct   types.Type // akField: struct type
	Ref      string     // akField: object; akElem: base; akCell: cell ref
	FieldIdx int
	Idx      string     // akElem: absolute index
	RootT    types.Type // type of the value stored at the root location
	Global   *ssa.Global
	Path     []PathStep
}

func (a *Addr) with(step PathStep) *Addr {
	b := *a
	b.Path = append(append([]PathStep{}, a.Path...), step)
	return &b
}

type State struct {
	cells  map[int]Val
	heaps  map[string]string
	epoch  int
	nonNil map[string]bool
	ghost  map[string]string // ghost variables by name -> term
}

func newState() *State {
	return &State{cells: map[int]Val{}, heaps: map[string]string{}, nonNil: map[string]bool{}, ghost: map[string]string{}}
}

func (s *State) clone() *State {
	n := &State{cells: make(map[int]Val, len(s.cells)), heaps: make(map[string]string, len(s.heaps)),
		epoch: s.epoch, nonNil: make(map[string]bool, len(s.nonNil)), ghost: make(map[string]string, len(s.ghost))}
	for k, v := range s.cells {
		n.cells[k] = v
	}
	for k, v := range s.heaps {
		n.heaps[k] = v
	}
	for k, v := range s.nonNil {
		n.nonNil[k] = v
	}
	for k, v := range s.ghost {
		n.ghost[k] = v
	}
	return n
}

// heap name helpers ---------------------------------------------------------------------------

func (c *FnCtx) fieldHeap(st types.Type, idx int) (string, string) {
	s := st.Underlying().(*types.Struct)
	f := s.Field(idx)
	name := "F." + sanitize(typeName(st)) + "." + sanitize(f.Name())
	return name, "(Array Int " + c.sortOf(f.Type()) + ")"
}

func (c *FnCtx) elemHeap(elem types.Type) (string, string) {
	es := c.sortOf(elem)
	return "E." + sortTag(es), "(Array Int (Array Int " + es + "))"
}

func (c *FnCtx) cellHeap(elem types.Type) (string, string) {
	es := c.sortOf(elem)
	return "C." + sortTag(es), "(Array Int " + es + ")"
}

func (c *FnCtx) mapHeaps(mt types.Type) (dom, val, ln string, ks, vs string) {
	m := mt.Underlying().(*types.Map)
	ks, vs = c.sortOf(m.Key()), c.sortOf(m.Elem())
	// one heap per Go map type: maps of different types never alias
	tag := mapTypeTag(m)
	c.heapSorts["MD."+tag] = "(Array Int (Array " + ks + " Bool))"
	c.heapSorts["MV."+tag] = "(Array Int (Array " + ks + " " + vs + "))"
	c.heapSorts["ML."+tag] = "(Array Int Int)"
	return "MD." + tag, "MV." + tag, "ML." + tag, ks, vs
}

// heapGet returns the current term of a heap component, creating the symbol of the state's
// epoch on first use.
func (c *FnCtx) heapGet(st *State, name, sort string) string {
	if t, ok := st.heaps[name]; ok {
		return t
	}
	c.heapSorts[name] = sort
	sym := fmt.Sprintf("%s@%d", name, st.epoch)
	if _, seen := c.smt.declared[sym]; !seen {
		c.smt.declare(sym, sort)
		c.heapSymbolAxioms(name, sort, sym)
	}
	if st.epoch == 0 {
		c.initialHeaps[name] = sym
	}
	return sym
}

// heapSymbolAxioms: facts true of every heap state, stated for each unconstrained heap symbol:
// the nil map has no keys.
func (c *FnCtx) heapSymbolAxioms(name, sort, sym string) {
	if strings.HasPrefix(name, "MD.") {
		ks := strings.TrimSuffix(strings.TrimPrefix(sort, "(Array Int (Array "), " Bool))")
		c.smt.assume(fmt.Sprintf("(forall ((k %s)) (! (not (select (select %s 0) k)) :pattern ((select (select %s 0) k))))", ks, sym, sym), "the nil map has no keys")
	}
}

func (c *FnCtx) initialHeapSym(name, sort string) string {
	c.heapSorts[name] = sort
	sym := fmt.Sprintf("%s@0", name)
	c.smt.declare(sym, sort)
	return sym
}

func (c *FnCtx) heapSet(st *State, name, sort, term string) {
	c.heapSorts[name] = sort
	st.heaps[name] = c.smt.define(name, sort, term)
}

// havocAll forgets everything about the heap (used for calls whose effects are unknown).
func (c *FnCtx) havocAll(st *State) {
	// private variables (see privateVar) keep the value they have now
	var keep []frozenCell
	for _, pc := range c.privateCells {
		if c.loopHeadHavoc {
			break
		}
		cur := c.smt.define("privcell", arrayElemSort(pc.sort), sel(c.heapGet(st, pc.heap, pc.sort), pc.ref))
		keep = append(keep, frozenCell{pc.heap, pc.sort, pc.ref, cur})
	}
	defer func() {
		for _, fc := range keep {
			c.smt.assume(eq(sel(c.heapGet(st, fc.heap, fc.sort), fc.ref), fc.val), "a variable that never leaves the function keeps its value across the call")
		}
	}()
	c.smt.nextID++
	st.epoch = c.smt.nextID
	st.heaps = map[string]string{}
	st.nonNil = map[string]bool{}
	for _, fc := range c.frozenCells {
		c.smt.assume(eq(sel(c.heapGet(st, fc.heap, fc.sort), fc.ref), fc.val), "a variable assigned once keeps its value")
	}
}

// havocHeap replaces one heap component by a fresh symbol.
func (c *FnCtx) havocHeap(st *State, name string) {
	sort, ok := c.heapSorts[name]
	if !ok {
		return
	}
	sym := c.smt.declareFresh(name, sort)
	c.heapSymbolAxioms(name, sort, sym)
	st.heaps[name] = sym
}

// merge -----------------------------------------------------------------------------------------

type incoming struct {
	cond string
	st   *State
}

// mergeStates joins states arriving over several edges. conds are the (mutually exclusive)
// edge conditions.
func (c *FnCtx) mergeStates(ins []incoming) *State {
	if len(ins) == 1 {
		return ins[0].st.clone()
	}
	out := newState()
	// epoch: if the epochs differ, lazily created heaps would differ; materialise every heap
	// known anywhere in every state first.
	sameEpoch := true
	for _, in := range ins[1:] {
		if in.st.epoch != ins[0].st.epoch {
			sameEpoch = false
		}
	}
	names := map[string]bool{}
	for _, in := range ins {
		for k := range in.st.heaps {
			names[k] = true
		}
	}
	if !sameEpoch {
		for k := range c.heapSorts {
			names[k] = true
		}
		c.smt.nextID++
		out.epoch = c.smt.nextID
	} else {
		out.epoch = ins[0].st.epoch
	}
	var hnames []string
	for k := range names {
		hnames = append(hnames, k)
	}
	sort.Strings(hnames)
	for _, k := range hnames {
		sortK := c.heapSorts[k]
		terms := make([]string, len(ins))
		same := true
		for i, in := range ins {
			terms[i] = c.heapGet(in.st, k, sortK)
			if terms[i] != terms[0] {
				same = false
			}
		}
		if same {
			if _, explicit := ins[0].st.heaps[k]; explicit || !sameEpoch {
				out.heaps[k] = terms[0]
			}
			continue
		}
		t := terms[len(ins)-1]
		for i := len(ins) - 2; i >= 0; i-- {
			t = ite(ins[i].cond, terms[i], t)
		}
		out.heaps[k] = c.smt.define(k, sortK, t)
	}
	// cells: only those present in all incoming states survive
	var ids []int
	for id := range ins[0].st.cells {
		ids = append(ids, id)
	}
	sort.Ints(ids)
	for _, id := range ids {
		vals := make([]Val, len(ins))
		ok := true
		for i, in := range ins {
			v, has := in.st.cells[id]
			if !has {
				ok = false
				break
			}
			vals[i] = v
		}
		if !ok {
			continue
		}
		out.cells[id] = c.mergeVals(ins, vals)
	}
	for k := range ins[0].st.nonNil {
		all := true
		for _, in := range ins[1:] {
			if !in.st.nonNil[k] {
				all = false
				break
			}
		}
		if all {
			out.nonNil[k] = true
		}
	}
	gkeys := map[string]bool{}
	for _, in := range ins {
		for k := range in.st.ghost {
			gkeys[k] = true
		}
	}
	for _, k := range sortedKeys(gkeys) {
		terms := make([]string, len(ins))
		same, ok := true, true
		for i, in := range ins {
			g, has := in.st.ghost[k]
			if !has {
				// a ghost variable not yet touched on this path has its initial value; the visited
				// sets of range loops exist only on paths that started the loop
				if strings.HasPrefix(k, "visited.") {
					ok = false
					break
				}
				g = c.ghostInit(k)
			}
			terms[i] = g
			if g != terms[0] {
				same = false
			}
		}
		if !ok {
			continue
		}
		if same {
			out.ghost[k] = terms[0]
			continue
		}
		t := terms[len(ins)-1]
		for i := len(ins) - 2; i >= 0; i-- {
			t = ite(ins[i].cond, terms[i], t)
		}
		out.ghost[k] = c.smt.define("ghost_"+sanitize(k), c.ghostSorts[k], t)
	}
	return out
}

func (c *FnCtx) mergeVals(ins []incoming, vals []Val) Val {
	same := true
	for _, v := range vals[1:] {
		if v.Term != vals[0].Term || v.Addr != vals[0].Addr || v.Fn != vals[0].Fn || v.Iter != vals[0].Iter || v.Dyn != vals[0].Dyn {
			same = false
		}
	}
	if same {
		return vals[0]
	}
	out := Val{T: vals[0].T}
	// engine-level information is dropped unless identical
	terms := make([]string, len(vals))
	for i, v := range vals {
		terms[i] = c.termOf(v)
	}
	t := terms[len(vals)-1]
	for i := len(vals) - 2; i >= 0; i-- {
		t = ite(ins[i].cond, terms[i], t)
	}
	out.Term = c.smt.define("m", c.sortOf(out.T), t)
	return out
}

// termOf returns an SMT term for a value, converting engine-level information when it must
// be stored in memory or merged.
func (c *FnCtx) termOf(v Val) string {
	if v.Term != "" {
		return v.Term
	}
	if v.Fn != nil {
		return c.fnID(v.Fn)
	}
	if v.Addr != nil {
		if p := c.addrToPtr(v.Addr); p != "" {
			if v.T != nil && !c.typedSeen["ptr|"+p] {
				if pt, ok := v.T.Underlying().(*types.Pointer); ok {
					if _, isStruct := pt.Elem().Underlying().(*types.Struct); !isStruct {
						c.typedSeen["ptr|"+p] = true
						c.smt.assume(c.typeFacts(v.T, p), "") // cell_ty / arr_ty of the location pointed at
					}
				}
			}
			return p
		}
		c.unsupported("address of a local/nested location escapes into memory or a merge")
		return c.smt.declareFresh("opaqueaddr", c.sortOf(v.T))
	}
	if v.T != nil {
		return c.smt.declareFresh("opaque", c.sortOf(v.T))
	}
	return "0"
}

// addrToPtr encodes a heap address as a Ptr term where that is possible.
func (c *FnCtx) addrToPtr(a *Addr) string {
	if len(a.Path) != 0 {
		return ""
	}
	switch a.Kind {
	case akCell:
		return app("pcell", a.Ref)
	case akField:
		name, _ := c.fieldHeap(a.Struct, a.FieldIdx)
		return app("pfield", a.Ref, fmt.Sprint(c.fieldID(name)))
	case akElem:
		return app("pelem", a.Ref, a.Idx)
	}
	return ""
}

func (c *FnCtx) fieldID(heapName string) int {
	if id, ok := c.fieldIDs[heapName]; ok {
		return id
	}
	id := len(c.fieldIDs) + 1
	c.fieldIDs[heapName] = id
	return id
}

func (c *FnCtx) fnID(f *FnVal) string {
	if len(f.Bindings) == 0 {
		name := "fn." + sanitize(f.Fn.String())
		if _, ok := c.smt.declared[name]; !ok {
			c.smt.declare(name, "Int")
			id := len(c.fnConsts) + 1
			c.fnConsts[name] = f.Fn
			c.smt.assume(eq(name, fmt.Sprint(id)), "function identity")
			c.assumeLabels(f, name, newState())
		}
		return name
	}
	if t, ok := c.closureIDs[f]; ok {
		return t
	}
	t := c.smt.declareFresh("closure."+sanitize(f.Fn.Name()), "Int")
	c.smt.assume(fmt.Sprintf("(> %s 1000000)", t), "closure identity")
	c.closureIDs[f] = t
	c.closureByTerm[t] = f
	if f.CreatedIn != nil {
		c.assumeLabels(f, t, f.CreatedIn)
	}
	return t
}

// memory access -----------------------------------------------------------------------------------

func (c *FnCtx) readRoot(st *State, a *Addr) Val {
	v := c.readRoot0(st, a)
	if a.Kind != akLocal && v.Term != "" {
		c.heapTyped(a.RootT, v.Term)
		c.closedHeap(st, a.RootT, v.Term, 0)
	}
	return v
}

// closedHeap: every reference stored in the heap is nil or allocated (reachable objects are
// allocated) -- an invariant of every execution state, assumed for values read from the heap.
func (c *FnCtx) closedHeap(st *State, t types.Type, term string, depth int) {
	if strings.Contains(term, "q.") || depth > 2 {
		return
	}
	al := c.heapGet(st, "alloc", allocSort)
	key := fmt.Sprintf("%s|%s@%d", al, term, c.smt.curScope)
	if depth == 0 {
		if c.typedSeen[key] {
			return
		}
		c.typedSeen[key] = true
	}
	switch u := t.Underlying().(type) {
	case *types.Pointer:
		if _, ok := u.Elem().Underlying().(*types.Struct); ok {
			c.smt.assume(or(eq(term, "0"), sel(al, term)), "")
		}
	case *types.Map, *types.Chan:
		c.smt.assume(or(eq(term, "0"), sel(al, term)), "")
	case *types.Slice:
		c.smt.assume(or(eq(app("sl_base", term), "0"), sel(al, app("sl_base", term))), "")
	case *types.Struct:
		for i := 0; i < u.NumFields(); i++ {
			c.closedHeap(st, u.Field(i).Type(), c.structGet(t, term, i), depth+1)
		}
	}
}

// heapTyped records that a value read from the heap is well typed (integer range, slice shape):
// the heap only ever holds values produced by well-typed stores.
func (c *FnCtx) heapTyped(t types.Type, term string) {
	// remembered per assumption scope: a fact recorded inside a loop body is dropped with that scope
	key := fmt.Sprintf("%s@%d", term, c.smt.curScope)
	if c.typedSeen[key] {
		return
	}
	c.typedSeen[key] = true
	if f := c.typeFacts(t, term); f != "true" {
		c.smt.assume(f, "")
	}
}

func (c *FnCtx) readRoot0(st *State, a *Addr) Val {
	switch a.Kind {
	case akLocal:
		v, ok := st.cells[a.CellID]
		if !ok {
			return Val{T: a.RootT, Term: c.smt.declareFresh("lostcell", c.sortOf(a.RootT))}
		}
		return v
	case akField:
		name, sort := c.fieldHeap(a.Struct, a.FieldIdx)
		return Val{T: a.RootT, Term: sel(c.heapGet(st, name, sort), a.Ref)}
	case akElem:
		name, sort := c.elemHeap(a.RootT)
		return Val{T: a.RootT, Term: sel(sel(c.heapGet(st, name, sort), a.Ref), a.Idx)}
	case akCell:
		name, sort := c.cellHeap(a.RootT)
		return Val{T: a.RootT, Term: sel(c.heapGet(st, name, sort), a.Ref)}
	case akGlobal:
		name := "G." + sanitize(a.Global.Pkg.Pkg.Name()+"."+a.Global.Name())
		t := c.heapGet(st, name, c.sortOf(a.RootT))
		if c.eng.globalInitOnlyNonNil(a.Global) && c.sortOf(a.RootT) == "Int" {
			// initialised once with a non-nil value and never assigned again
			c.smt.assume(app(">", c.initialHeapSym(name, c.sortOf(a.RootT)), "0"), "package variable "+a.Global.Name()+" is initialised non-nil and never reassigned")
			if st.epoch != 0 {
				c.smt.assume(app(">", t, "0"), "")
			}
		}
		return Val{T: a.RootT, Term: t}
	}
	panic("readRoot")
}

func (c *FnCtx) writeRoot(st *State, a *Addr, v Val) {
	switch a.Kind {
	case akLocal:
		v.T = a.RootT
		st.cells[a.CellID] = v
	case akField:
		name, sort := c.fieldHeap(a.Struct, a.FieldIdx)
		c.heapSet(st, name, sort, sto(c.heapGet(st, name, sort), a.Ref, c.termOf(v)))
	case akElem:
		name, sort := c.elemHeap(a.RootT)
		h := c.heapGet(st, name, sort)
		c.heapSet(st, name, sort, sto(h, a.Ref, sto(sel(h, a.Ref), a.Idx, c.termOf(v))))
	case akCell:
		name, sort := c.cellHeap(a.RootT)
		c.heapSet(st, name, sort, sto(c.heapGet(st, name, sort), a.Ref, c.termOf(v)))
	case akGlobal:
		name := "G." + sanitize(a.Global.Pkg.Pkg.Name()+"."+a.Global.Name())
		c.heapSet(st, name, c.sortOf(a.RootT), c.termOf(v))
	}
}

func (c *FnCtx) load(st *State, a *Addr) Val {
	v := c.readRoot(st, a)
	if len(a.Path) == 0 {
		return v
	}
	term := c.termOf(v)
	t := a.RootT
	for _, step := range a.Path {
		if step.Index != "" {
			term = sel(term, step.Index)
			t = t.Underlying().(*types.Array).Elem()
		} else {
			term = c.structGet(t, term, step.Field)
			t = t.Underlying().(*types.Struct).Field(step.Field).Type()
		}
	}
	return Val{T: t, Term: term}
}

func (c *FnCtx) store(st *State, a *Addr, v Val) {
	if len(a.Path) == 0 {
		c.writeRoot(st, a, v)
		return
	}
	root := c.termOf(c.readRoot(st, a))
	nv := c.updatePath(a.RootT, root, a.Path, c.termOf(v))
	c.writeRoot(st, a, Val{T: a.RootT, Term: c.smt.define("upd", c.sortOf(a.RootT), nv)})
}

func (c *FnCtx) updatePath(t types.Type, term string, path []PathStep, nv string) string {
	if len(path) == 0 {
		return nv
	}
	step := path[0]
	if step.Index != "" {
		et := t.Underlying().(*types.Array).Elem()
		return sto(term, step.Index, c.updatePath(et, sel(term, step.Index), path[1:], nv))
	}
	ft := t.Underlying().(*types.Struct).Field(step.Field).Type()
	return c.structSet(t, term, step.Field, c.updatePath(ft, c.structGet(t, term, step.Field), path[1:], nv))
}

// allocation ---------------------------------------------------------------------------------

const allocSort = "(Array Int Bool)"

// freshRef returns a reference that is not allocated in st and marks it allocated.
func (c *FnCtx) freshRef(st *State, hint string) string {
	r := c.smt.declareFresh("new."+hint, "Int")
	al := c.heapGet(st, "alloc", allocSort)
	c.smt.assume(and("(> "+r+" 0)", not(sel(al, r))), "fresh reference")
	c.heapSet(st, "alloc", allocSort, sto(al, r, "true"))
	st.nonNil[r] = true
	return r
}

func (c *FnCtx) unsupported(what string) {
	for _, w := range c.unsupportedNotes {
		if w == what {
			return
		}
	}
	c.unsupportedNotes = append(c.unsupportedNotes, what)
}

func describeAddr(a *Addr) string {
	var b strings.Builder
	switch a.Kind {
	case akLocal:
		fmt.Fprintf(&b, "local#%d", a.CellID)
	case akField:
		fmt.Fprintf(&b, "%s.%d@%s", typeName(a.Struct), a.FieldIdx, a.Ref)
	case akElem:
		fmt.Fprintf(&b, "elem[%s][%s]", a.Ref, a.Idx)
	case akCell:
		fmt.Fprintf(&b, "cell@%s", a.Ref)
	case akGlobal:
		fmt.Fprintf(&b, "global %s", a.Global.Name())
	}
	return b.String()
}

func mapTypeTag(m *types.Map) string {
	s := types.TypeString(m, func(p *types.Package) string { return p.Name() })
	s = strings.NewReplacer("map[", "M_", "]", "_", "[", "_", "*", "p", "{", "", "}", "", " ", "").Replace(s)
	return sanitize(s)
}
