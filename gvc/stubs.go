package main

import "golang.org/x/tools/go/ssa"

type ssaFunction = ssa.Function

func cmdCheck(args []string)    {}
func cmdSelftest(args []string) {}
func cmdReplay(args []string)   {}
