package main

import "golang.org/x/tools/go/ssa"

type ssaFunction = ssa.Function

