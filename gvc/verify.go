package main

import (
	"fmt"
	"go/token"
	"go/types"
	"os"
	"runtime"
	"sort"
	"strconv"
	"strings"
	"sync"
	"time"

	"golang.org/x/tools/go/ssa"
)

type FnReport struct {
	Fn          string
	Key         string
	Obligations []*Obligation
	Unsupported []string
	Assumed     []string
	Contracts   []string
	Seconds     float64
	Trusted     bool
	HasContract bool
}

// verifyFunction generates the obligations of one function under its contract (or under the
// empty contract for a zero-annotation safety sweep).
func (e *Engine) verifyFunction(fn *ssa.Function) (rep *FnReport) {
	t0 := time.Now()
	ct := e.contractOf(fn)
	rep = &FnReport{Fn: shortFn(fn), Key: relName(fn), HasContract: ct != nil}
	if ct != nil && ct.Trusted {
		rep.Trusted = true
		return rep
	}
	c := e.newFnCtx(fn, ct)
	if tc0, _ := e.typeContractOfFn(fn); tc0 != nil && tc0.Floats == "ieee" {
		c.floatsIEEE = true
	}
	defer func() {
		if r := recover(); r != nil {
			// an engine failure on a function must never look like a proof
			o := &Obligation{Name: shortFn(fn) + "/engine/internal error#1", Kind: "engine", Fn: shortFn(fn), Goal: "false", Reach: "true", Ctx: c,
				Result: SolverResult{Status: "engine-error", Output: fmt.Sprint(r)}}
			rep.Obligations = append(c.obls, o)
			if os.Getenv("GVC_PANIC") != "" {
				panic(r)
			}
		}
	}()
	fr := c.newFrame(fn, nil, nil)
	st := newState()
	fr.entry = st
	var args []Val
	for _, p := range fn.Params {
		v := fr.opaqueInput(p, p.Type(), "p."+p.Name())
		args = append(args, v)
		if v.Term != "" {
			c.witness = append(c.witness, v.Term)
			c.witnessNames[v.Term] = p.Name()
		}
	}
	for _, fv := range fn.FreeVars {
		fr.opaqueInput(fv, fv.Type(), "fv."+fv.Name())
	}
	fr.params = args
	c.collectWitnesses(fr, st)
	// reference-typed parameters point to allocated objects (or are nil)
	al := c.heapGet(st, "alloc", allocSort)
	for _, a := range args {
		if a.Term != "" && c.sortOf(a.T) == "Int" && !isInteger(a.T) {
			c.smt.assume(or(eq(a.Term, "0"), sel(al, a.Term)), "parameter refers to an allocated object")
		}
		if _, ok := a.T.Underlying().(*types.Slice); ok && a.Term != "" {
			c.smt.assume(or(eq(app("sl_base", a.Term), "0"), sel(al, app("sl_base", a.Term))), "parameter slice is allocated")
		}
		if _, ok := a.T.Underlying().(*types.Struct); ok && a.Term != "" {
			c.closedHeap(st, a.T, a.Term, 0) // references inside a struct parameter are allocated
		}
	}
	c.smt.assume(not(sel(al, "0")), "nil is not an allocated object")
	// function-type contract (e.g. the lexer's stateFn) and the identity of this function value
	tc, tnamed := e.typeContractOfFn(fn)
	var self Val
	if tc != nil && tc.Floats == "ieee" {
		c.floatsIEEE = true
	}
	if tc != nil {
		rep.HasContract = true
		if len(fn.FreeVars) == 0 && fn.Parent() == nil {
			self = Val{T: tnamed, Fn: &FnVal{Fn: fn}}
			self.Term = c.fnID(self.Fn)
		} else {
			t := c.smt.declare("self", "Int")
			c.smt.assume("(> self 1000000)", "closure identity")
			self = Val{T: tnamed, Term: t}
			fvv := &FnVal{Fn: fn}
			for _, v := range fn.FreeVars {
				fvv.Bindings = append(fvv.Bindings, fr.vals[v])
			}
			c.assumeLabels(fvv, t, st)
		}
		tenv := c.typeEnv(tc, fr.pkg(), fn.Signature, self, args, st)
		for _, cl := range tc.clauses("requires") {
			t, err := tenv.evalBool(cl.Expr)
			if err != nil {
				fr.bindFailure(cl, err)
				continue
			}
			c.smt.assume(t, "functype requires "+cl.Text)
		}
	}
	// assume the precondition
	if ct != nil {
		env := fr.env(st)
		env.useLocals = false
		for _, cl := range ct.clauses("captures") {
			t, err := env.evalBool(cl.Expr)
			if err != nil {
				fr.bindFailure(cl, err)
				continue
			}
			c.smt.assume(t, "capture invariant (proved where the closure is created): "+cl.Text)
		}
		if self.Term != "" {
			env.names["self"] = self
		}
		for _, cl := range ct.clauses("requires") {
			if tc != nil {
				// the function is reached through its type: its own precondition must follow
				for _, cj := range conjuncts(cl.Expr) {
					t, err := env.evalBool(cj)
					if err != nil {
						fr.bindFailure(cl, err)
						continue
					}
					fr.oblige("refines", "own requires follows from the function type's: "+cj.String(), "true", t, fn.Pos())
				}
			}
			t, err := env.evalBool(cl.Expr)
			if err != nil {
				fr.bindFailure(cl, err)
				continue
			}
			c.smt.assume(t, "requires "+cl.Text)
		}
		// vacuity: the precondition must be satisfiable
		if len(ct.clauses("requires")) > 0 {
			o := fr.oblige("cover", "precondition satisfiable", "true", "false", token.NoPos)
			if o != nil {
				o.Cover = true
			}
		}
	}
	// modifiable locations, for the automatic loop frame invariants
	c.topEntry = st
	if ct != nil && (len(ct.clauses("modifies")) > 0 || (ct.hasCallSpec() && tc == nil)) {
		env := fr.env(st)
		env.useLocals = false
		if ms, err := env.modSet(ct); err == nil {
			c.topMS = ms
		}
	} else if tc != nil {
		tenv := c.typeEnv(tc, fr.pkg(), fn.Signature, self, args, st)
		if ms, err := tenv.modSet(tc); err == nil {
			c.topMS = ms
		}
	}
	out, results, rr := fr.execBody(st, "true", args)
	if ct != nil && rr != "false" {
		env := fr.env(out)
		env.useLocals = false
		env.results = results
		for _, cl := range ct.clauses("ensures") {
			for _, cj := range conjuncts(cl.Expr) {
				t, err := env.evalBool(cj)
				if err != nil {
					fr.bindFailure(cl, err)
					continue
				}
				text := cj.String()
				if cl.Label != "" {
					text = "[" + cl.Label + "] " + text
				}
				o := fr.oblige("post", text, rr, t, fn.Pos())
				if o != nil {
					o.Label = cl.Label
				}
			}
		}
		if ct.hasCallSpec() {
			fr.checkFrame(ct, out, rr, nil)
		}
		// reachability of the exit: if the end is unreachable every postcondition is vacuous
		o := fr.oblige("cover", "function exit reachable", rr, "false", token.NoPos)
		if o != nil {
			o.Cover = true
		}
	}
	if tc != nil && rr != "false" {
		tenv := c.typeEnv(tc, fr.pkg(), fn.Signature, self, args, out)
		tenv.old = fr.entry
		tenv.results = results
		for _, cl := range tc.clauses("ensures") {
			for _, cj := range conjuncts(cl.Expr) {
				t, err := tenv.evalBool(cj)
				if err != nil {
					fr.bindFailure(cl, err)
					continue
				}
				fr.oblige("post", "functype "+funcTypeName(tc)+": "+cj.String(), rr, t, fn.Pos())
			}
		}
		tenv0 := c.typeEnv(tc, fr.pkg(), fn.Signature, self, args, fr.entry)
		fr.checkFrame(tc, out, rr, tenv0)
		if ct == nil {
			o := fr.oblige("cover", "function exit reachable", rr, "false", token.NoPos)
			if o != nil {
				o.Cover = true
			}
		}
	}
	if ct != nil && fn.Blocks != nil {
		// a callsite clause that applies to no call of the function says nothing: the call it was written for has
		// disappeared or been renamed (reported like any other contract clause that no longer binds)
		for _, cl := range ct.clauses("callsite") {
			if !cl.Assumed && !c.callsiteMatched[cl] {
				fr.bindFailure(cl, fmt.Errorf("callsite %s: no call of the function matches this clause", cl.Label))
			}
		}
	}
	rep.Obligations = c.obls
	rep.Unsupported = c.unsupportedNotes
	rep.Assumed = sortedKeys(c.assumedExternal)
	rep.Contracts = sortedKeys(c.contractsUsed)
	rep.Seconds = time.Since(t0).Seconds()
	return rep
}

// wellFormedHeapAxioms: in every reachable heap, references stored in allocated objects point
// to allocated objects (added lazily for the reference-typed components a function reads).
func (c *FnCtx) wellFormedHeapAxioms(st *State) {}

// checkFrame: every heap component changed by the function must be covered by its modifies
// clauses (objects allocated during the call are exempt).
func (fr *Frame) checkFrame(ct *Contract, out *State, rr string, env *CEnv) {
	c := fr.c
	if env == nil {
		env = fr.env(fr.entry)
		env.useLocals = false
		env.st = fr.entry
	}
	ms, err := env.modSet(ct)
	if err != nil {
		fr.bindFailure(&Clause{Kind: "modifies", Text: ct.Key}, err)
		return
	}
	if ms.all {
		// `modifies everything preserves T`: the field heaps of T must be left as they were
		for _, tn := range ct.Preserves {
			if strings.HasPrefix(tn, "elems(") {
				// only meaningful on trusted (interface) contracts: a function with a body cannot claim it
				fr.oblige("frame", "preserves "+tn+" on a function with a body is not checkable", rr, "false", fr.fn.Pos())
				continue
			}
			for _, h := range sortedKeys(c.heapSorts) {
				if !strings.HasPrefix(h, "F."+sanitize(tn)+".") {
					continue
				}
				final := c.heapGet(out, h, c.heapSorts[h])
				initial := c.heapGet(fr.entry, h, c.heapSorts[h])
				if final != initial {
					fr.oblige("frame", "preserves "+tn+": "+h+" unchanged", rr, eq(final, initial), fr.fn.Pos())
				}
			}
		}
		return
	}
	oldAlloc := c.heapGet(fr.entry, "alloc", allocSort)
	names := map[string]bool{}
	for h := range out.heaps {
		names[h] = true
	}
	for _, h := range sortedKeys(names) {
		if h == "alloc" || strings.HasPrefix(h, "G.") && false {
			continue
		}
		srt := c.heapSorts[h]
		final := c.heapGet(out, h, srt)
		initial := c.heapGet(fr.entry, h, srt)
		if final == initial || ms.whole[h] {
			continue
		}
		if strings.HasPrefix(h, "G.") {
			fr.oblige("frame", "global "+h+" unchanged", rr, eq(final, initial), fr.fn.Pos())
			continue
		}
		may := []string{not(sel(oldAlloc, "r"))}
		for _, p := range ms.heaps[h] {
			may = append(may, p("r"))
		}
		for _, r := range ms.refs[h] {
			may = append(may, eq("r", r))
		}
		goal := fmt.Sprintf("(forall ((r Int)) (=> (not %s) (= (select %s r) (select %s r))))", or(may...), final, initial)
		fr.oblige("frame", "only declared locations of "+h+" change", rr, goal, fr.fn.Pos())
	}
	if out.epoch != fr.entry.epoch {
		fr.oblige("frame", "unknown effects (heap havoc'd by an unmodelled call)", rr, "false", fr.fn.Pos())
	}
}

// discharge ---------------------------------------------------------------------------------------

type RunOpts struct {
	Timeout   time.Duration
	Agree     int
	Workdir   string
	KeepSMT   bool
	Verbose   bool
	NoRetry   bool // selftest: a mutant counts as detected by its first-pass failures; only negative controls are retried
	NoRelaxed bool // selftest: no search for candidate counterexamples
}

// relaxedQuery: the obligation's query without quantified assumptions (candidate models only).
func (o *Obligation) relaxedQuery() string {
	return o.Ctx.smt.renderScoped(o.UpTo, []string{o.Reach, not(o.Goal)}, nil, true, o.Scope)
}

func (o *Obligation) query(extraValues bool) string {
	c := o.Ctx
	extra := []string{o.Reach}
	if !o.Cover {
		extra = append(extra, not(o.Goal))
	}
	var gv []string
	if extraValues {
		gv = c.witness
	}
	return c.smt.renderScoped(o.UpTo, extra, gv, false, o.Scope)
}

func dischargeAll(obls []*Obligation, opts RunOpts) {
	var wg sync.WaitGroup
	sem := make(chan struct{}, queryParallelism())
	for _, o := range obls {
		if o.Result.Status != "" { // bind / engine errors are already decided
			continue
		}
		wg.Add(1)
		go func(o *Obligation) {
			defer wg.Done()
			sem <- struct{}{}
			defer func() { <-sem }()
			q := o.query(false)
			to := opts.Timeout
			if o.Cover && to > 5*time.Second {
				to = 5 * time.Second // a reachability cover either finds a state quickly or is recorded as unknown
			}
			res := solve(q, to, opts.Workdir, o.Name, opts.Agree)
			if res.Status == "sat" && !o.Cover && len(o.Ctx.witness) > 0 {
				// ask again for the witness values
				q2 := o.query(true)
				r2 := solve(q2, opts.Timeout, opts.Workdir, o.Name+".model", 1)
				if r2.Status == "sat" {
					res.Output = r2.Output
				}
			}
			o.Result = res
		}(o)
	}
	wg.Wait()
	// second pass: an obligation without a verdict (timeout / unknown) is not yet a violation. It is run
	// again, few at a time (so that the machine's load cannot be the reason), with three times the
	// time and other solver seeds. A proof found here is a proof; only an obligation that still has no
	// verdict is reported. (A `sat` answer is never retried.)
	sem2 := make(chan struct{}, 4)
	undecided := 0
	for _, o := range obls {
		if !o.Cover && o.Ctx != nil && (o.Result.Status == "timeout" || o.Result.Status == "unknown") {
			undecided++
		}
	}
	for _, o := range obls {
		if o.Cover || o.Ctx == nil || (o.Result.Status != "timeout" && o.Result.Status != "unknown") {
			continue
		}
		// so many obligations without a verdict is not load: the code no longer matches its contracts
		// (a rewritten function); retrying each of them would only delay the report
		retries := 1
		if undecided > 24 || opts.NoRetry {
			retries = 0
		}
		wg.Add(1)
		go func(o *Obligation) {
			defer wg.Done()
			sem2 <- struct{}{}
			defer func() { <-sem2 }()
			first := o.Result
			q := o.query(false)
			for attempt := 1; attempt <= retries; attempt++ {
				res := solveSeeded(q, 3*opts.Timeout, opts.Workdir, fmt.Sprintf("%s.retry%d", o.Name, attempt), opts.Agree, attempt)
				for k, v := range first.All {
					res.All[k+"/first"] = v
				}
				if res.Status == "unsat" || res.Status == "sat" {
					res.Retried = attempt
					o.Result = res
					break
				}
			}
			if o.Result.Status == "sat" && len(o.Ctx.witness) > 0 {
				r2 := solve(o.query(true), opts.Timeout, opts.Workdir, o.Name+".model", 1)
				if r2.Status == "sat" {
					o.Result.Output = r2.Output
				}
			}
			if (o.Result.Status == "timeout" || o.Result.Status == "unknown") && !opts.NoRelaxed {
				// no verdict: look for a candidate counterexample in the query without its
				// quantified assumptions; it is reported only as a candidate (replay decides)
				r2 := solveOne(o.relaxedQuery(), opts.Timeout, opts.Workdir, o.Name+".relaxed")
				if r2.Status == "sat" {
					o.Relaxed = true
					o.Result.Output = "candidate model from the query without quantified assumptions (to be confirmed by replay)"
				}
			}
		}(o)
	}
	wg.Wait()
}

// queryParallelism: obligations in flight at once (each races three solver processes).
func queryParallelism() int {
	if v, err := strconv.Atoi(os.Getenv("GVC_PAR")); err == nil && v > 0 {
		return v
	}
	n := runtime.NumCPU() / 3
	if n < 2 {
		n = 2
	}
	if n > 12 {
		n = 12
	}
	return n
}

// ok reports whether the obligation is discharged.
func (o *Obligation) ok() bool {
	if o.Cover {
		return o.Result.Status != "unsat" // reachable / satisfiable (sat or unknown)
	}
	return o.Result.Status == "unsat"
}

func summarize(reps []*FnReport) (total, discharged int, failed []*Obligation) {
	for _, r := range reps {
		for _, o := range r.Obligations {
			total++
			if o.ok() {
				discharged++
			} else {
				failed = append(failed, o)
			}
		}
	}
	sort.Slice(failed, func(i, j int) bool { return failed[i].Name < failed[j].Name })
	return
}
