#!/bin/bash
# builds the verifier from /verif/gvc (x/tools v0.29.0 vendored), offline
set -e
cd "$(dirname "$0")"
TC=/root/go/pkg/mod/golang.org/toolchain@v0.0.1-go1.23.6.linux-amd64/bin
[ -d "$TC" ] && export PATH="$TC:$PATH"
export GOTOOLCHAIN=local GOPROXY=off GOSUMDB=off GOFLAGS=-mod=vendor
mkdir -p bin evidence replay/out
(cd gvc && go build -o ../bin/gvc .)
echo "gvc built"
