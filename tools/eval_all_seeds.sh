#!/bin/bash
# runs every seeded change against the check of its own property (sequentially: each one patches /repo)
for d in /verif/seeded/*/; do
  id=$(basename $d); p=${id%%_*}
  extra=""
  [ "$id" = "C07_2" ] && extra="C10"
  echo "=== $id"; /verif/tools/eval_seed.sh $d $p $extra 2>&1 | grep -E "^demo|^build|^--- check" | cut -c1-200
done
