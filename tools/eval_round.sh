#!/bin/bash
# eval_round.sh <suffixes...> : evaluate seeds seeded/<ID>_<suffix> against their own property's check
for d in /verif/seeded/*/; do
  id=$(basename $d); p=${id%%_*}; n=${id##*_}
  case " $* " in *" $n "*) ;; *) continue;; esac
  echo "=== $id"; /verif/tools/eval_seed.sh $d $p 2>&1 | grep -E "^seed=|^demo|^build|^--- check|^VIOLATION|PATCH" | cut -c1-330
done
