#!/bin/bash
# eval_seed.sh <seed dir> <property> [more properties...] : confirm a seeded change and run the checks against it
export PATH=/root/go/pkg/mod/golang.org/toolchain@v0.0.1-go1.23.6.linux-amd64/bin:$PATH GOFLAGS=-mod=mod GOPROXY=off GOTOOLCHAIN=local
export TMPDIR=$(mktemp -d /tmp/evalseed.XXXX)
d=$1; shift
cd /repo || exit 2
[ -z "$(git status --porcelain)" ] || { echo "repo dirty"; exit 2; }
pkgdir=$(grep -m1 -oE '(copy|copied|goes?|place|put)[^\n]*' $d/demo_test.go | head -1 >/dev/null; head -12 $d/demo_test.go | grep -oE '(pkg/[a-z0-9/]+|internal/[a-z0-9/]+|cmd/[a-z0-9/-]+|repository root|root package|root of the repo)' | head -1)
case "$pkgdir" in "repository root"|"root package"|"root of the repo"|"") pk=$(grep -m1 '^package ' $d/demo_test.go | awk '{print $2}'); if [ "$pk" = "gostatsd" ]; then pkgdir=.; else pkgdir=$(grep -rl --include=*.go "^package $pk\$" pkg internal 2>/dev/null | head -1 | xargs dirname); fi;; esac
echo "seed=$d pkgdir=$pkgdir"
git apply --check $d/patch.diff || { echo "PATCH-DOES-NOT-APPLY"; exit 1; }
touched=$(grep '^+++ b/' $d/patch.diff | sed 's|+++ b/||' | xargs -n1 dirname | sort -u | sed 's|^|./|')
# without patch: demo passes
cp $d/demo_test.go $pkgdir/zz_seed_demo_test.go
r0=$(go test -vet=off -count=1 -run TestSeedDemo ./$pkgdir 2>&1 | tail -1)
git apply $d/patch.diff
r1=$(go test -vet=off -count=1 -run TestSeedDemo ./$pkgdir 2>&1 | tail -1)
rm -f $pkgdir/zz_seed_demo_test.go
r2=$(go build ./... 2>&1 | tail -1; go test -vet=off -count=1 $touched 2>&1 | grep -v "^ok\|no test files" | tail -3)
echo "demo without patch: $r0"
echo "demo with patch:    $r1"
echo "build+suite with patch (non-ok lines): [$r2]"
for p in "$@"; do
  out=$(cd /verif && ./bin/gvc check -property $p -no-evidence 2>&1)
  echo "--- check $p: $(echo "$out" | tail -1)"
  echo "$out" | grep VIOLATION | cut -c1-260 | head -6
done
git checkout -- . ; git clean -fdq
rm -rf $TMPDIR
