#!/usr/bin/env python3
# regenerates /verif/MANIFEST.json from tools/claims.json (claimed properties) and properties.jsonl
import json, subprocess
props=[json.loads(l)['id'] for l in open('/verif/properties.jsonl')]
claims=json.load(open('/verif/tools/claims.json'))
TECH="contract-based deductive verification: VC generation over go/ssa of the real code from //@ contracts, obligations discharged by z3 4.8.12 / z3 5.1.0 / cvc5 1.0.3"
checks=[]
for p in props:
    if p not in claims['claimed']: continue
    c=claims['claimed'][p]
    checks.append({"property_id":p,"quick_cmd":f"./check {p} quick","thorough_cmd":f"./check {p} thorough","evidence_file":f"/verif/evidence/{p}.json",
      "replay_cmd_template":"./check --replay {path}","engine":"gvc",
      "level_claimed":{"category":"proof","text":c["text"],"design_ref":"DESIGN.md §7 "+p},
      "level_note":c["note"],"technique":TECH})
m={"version":1,"setup_cmd":"./setup.sh",
 "hooks":{"guard":"verif","enable":"go build -tags verif ./...  (contract files zz_verif_contracts.go are comment-only and compiled only with this tag)",
   "baseline_off_cmd":"cd /repo && PATH=/root/go/pkg/mod/golang.org/toolchain@v0.0.1-go1.23.6.linux-amd64/bin:$PATH GOTOOLCHAIN=local GOFLAGS=-mod=mod GOPROXY=off go test -vet=off -count=1 ./...",
   "source_commits":claims['hook_commits'],"add_only":True},
 "engines":[{"name":"gvc","path":"/verif/gvc","serves_properties":[c["property_id"] for c in checks],"kind_free_text":"self-written deductive verifier for Go: contracts as //@ comments in guarded files in /repo, VC generation by symbolic execution of go/ssa (NaiveForm), SMT back ends z3/cvc5"}],
 "checks":checks,
 "notes":"see DESIGN.md; known_findings.json lists fixed/known defects; selftest/mutants/*.json is the must-fail corpus run by the thorough tier",
 "not_applicable":[{"property_id":p,"reason":claims['not_applicable'].get(p,"not yet claimed: contracts for this property are still being written (DESIGN.md §9 staging); no other technique is substituted")} for p in props if p not in claims['claimed']]}
json.dump(m,open('/verif/MANIFEST.json','w'),indent=1)
print("claimed:",[c["property_id"] for c in checks])
