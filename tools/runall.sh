#!/bin/bash
# runs the quick check of every claimed property (3 at a time), prints one line each
cd /verif
ids=$(python3 -c "import json;print(' '.join(c['property_id'] for c in json.load(open('MANIFEST.json'))['checks']))")
printf '%s\n' $ids | xargs -P 3 -I{} sh -c './check {} quick > /tmp/runall_{}.log 2>&1; echo "{} exit=$? $(tail -1 /tmp/runall_{}.log)"'
