#!/usr/bin/env python3
# regenerate the seeds table of DESIGN.md from seeded/*/meta.json
import json,glob,os,re
rows=["| seed | change (short) | first run | now | caught by / added |","|---|---|---|---|---|"]
for d in sorted(glob.glob('/verif/seeded/*/')):
    m=json.load(open(d+'meta.json'))
    fr=m.get('first_run',{})
    now=m.get('now',{})
    what=m['what'].split('. ')[0][:150].replace('|','\\|').replace('\n',' ')
    rows.append("| %s | %s | %s | %s | %s |"%(os.path.basename(d.rstrip('/')),what,
        'caught' if fr.get('detected') else 'missed',
        ('caught' if now.get('detected',fr.get('detected')) else 'missed'),
        (now.get('how') or fr.get('how','')).replace('|','\\|')[:260]))
p='/verif/DESIGN.md'; s=open(p).read()
s=re.sub(r'<!-- seeds-begin -->.*<!-- seeds-end -->','<!-- seeds-begin -->\n'+'\n'.join(rows).replace('\\','\\\\')+'\n<!-- seeds-end -->',s,flags=re.S)
open(p,'w').write(s)
print(len(rows)-2,"seeds")
